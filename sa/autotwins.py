"""Automatic refactor twins: behaviour-preserving rewrites generated from the current /repo source, on which every
rule must stay silent.  They test the checker (never the repository) for dependence on spelling:

  rename    every local variable of one function is consistently renamed (parameters, attributes, globals and
            names declared global/nonlocal keep their names); one twin per function that has locals
  reformat  a whole module re-emitted by ast.unparse (quotes, parentheses, line breaks, comments and blank lines
            change; the syntax tree does not)

  python -m sa.autotwins [Cxx ...] [--kind rename|reformat] [--module pycomm3/x.py] [-v]

Nothing is written under /repo or /verif: variants live in the model's overlay.  An alarm here is a false alarm of
the checker and is to be fixed in the rule (see DESIGN.md section 7)."""
from __future__ import annotations

import ast
import os
import sys
from concurrent.futures import ProcessPoolExecutor
from typing import Dict, List, Tuple

from .framework import UNDECIDED, VIOLATION, run_property
from .selftest import _baseline_keys, _read

SKIP_NAMES = {"self", "cls", "_", "__class__"}


def _module_files(repo) -> List[str]:
    out = []
    for root, _, files in os.walk(os.path.join(repo, "pycomm3")):
        for f in files:
            if f.endswith(".py"):
                out.append(os.path.relpath(os.path.join(root, f), repo))
    return sorted(out)


class _Scope(ast.NodeVisitor):
    """Names bound in one function body (not descending into nested defs / classes), and names that must keep their spelling."""

    def __init__(self):
        self.bound, self.keep = set(), set()

    def visit_FunctionDef(self, node):
        self.keep.add(node.name)

    visit_AsyncFunctionDef = visit_FunctionDef

    def visit_ClassDef(self, node):
        self.keep.add(node.name)

    def visit_Lambda(self, node):
        for a in node.args.args + node.args.kwonlyargs + getattr(node.args, "posonlyargs", []):
            self.keep.add(a.arg)
        self.generic_visit(node)

    def visit_Global(self, node):
        self.keep.update(node.names)

    visit_Nonlocal = visit_Global

    def visit_Name(self, node):
        if isinstance(node.ctx, (ast.Store, ast.Del)):
            self.bound.add(node.id)

    def visit_ExceptHandler(self, node):
        if node.name:
            self.bound.add(node.name)
        self.generic_visit(node)

    def visit_Import(self, node):
        for a in node.names:
            self.keep.add((a.asname or a.name).split(".")[0])

    visit_ImportFrom = visit_Import


def _nested_rebinds(func, names) -> bool:
    """A nested function/class that binds one of the names itself (a different variable of the same spelling)."""
    for n in ast.walk(func):
        if n is func or not isinstance(n, (ast.FunctionDef, ast.AsyncFunctionDef, ast.ClassDef, ast.Lambda)):
            continue
        if isinstance(n, ast.Lambda):
            params = {a.arg for a in n.args.args}
            if params & names:
                return True
            continue
        if isinstance(n, ast.ClassDef):
            sc = _Scope()
            for st in n.body:
                sc.visit(st)
            if sc.bound & names:
                return True
            continue
        params = {a.arg for a in n.args.args + n.args.kwonlyargs + getattr(n.args, "posonlyargs", [])}
        if n.args.vararg:
            params.add(n.args.vararg.arg)
        if n.args.kwarg:
            params.add(n.args.kwarg.arg)
        sc = _Scope()
        for st in n.body:
            sc.visit(st)
        if (sc.bound | params) & names:
            return True
    return False


class _Rename(ast.NodeTransformer):
    def __init__(self, mapping):
        self.m = mapping

    def visit_Name(self, node):
        if node.id in self.m:
            return ast.copy_location(ast.Name(id=self.m[node.id], ctx=node.ctx), node)
        return node

    def visit_ExceptHandler(self, node):
        if node.name in self.m:
            node.name = self.m[node.name]
        return self.generic_visit(node)


def rename_twins(repo, rels=None) -> List[Tuple[str, Dict[str, str]]]:
    """[(variant id, {rel: new module source})]: one per function with renamable locals."""
    out = []
    for rel in rels or _module_files(repo):
        src = _read(repo, rel)
        try:
            tree = ast.parse(src)
        except SyntaxError:
            continue
        funcs = [n for n in ast.walk(tree) if isinstance(n, (ast.FunctionDef, ast.AsyncFunctionDef))]
        for idx, f in enumerate(funcs):
            params = {a.arg for a in f.args.args + f.args.kwonlyargs + getattr(f.args, "posonlyargs", [])}
            if f.args.vararg:
                params.add(f.args.vararg.arg)
            if f.args.kwarg:
                params.add(f.args.kwarg.arg)
            sc = _Scope()
            for st in f.body:
                sc.visit(st)
            names = {n for n in sc.bound if n not in params and n not in sc.keep and n not in SKIP_NAMES and not (n.startswith("__") and n.endswith("__"))}
            if not names or _nested_rebinds(f, names):
                continue
            tree2 = ast.parse(src)
            f2 = [n for n in ast.walk(tree2) if isinstance(n, (ast.FunctionDef, ast.AsyncFunctionDef))][idx]
            mapping = {n: f"{n}_rn" for n in names}
            f2.body = [_Rename(mapping).visit(st) for st in f2.body]
            ast.fix_missing_locations(tree2)
            out.append((f"rename:{rel}:{f.name}@{idx}", {rel: ast.unparse(tree2) + "\n"}))
    return out


def rename_all_locals(src: str) -> str:
    """Every function of the module gets all its renamable locals renamed (one pass, innermost functions first)."""
    tree = ast.parse(src)
    funcs = [n for n in ast.walk(tree) if isinstance(n, (ast.FunctionDef, ast.AsyncFunctionDef))]
    for f in funcs:
        params = {a.arg for a in f.args.args + f.args.kwonlyargs + getattr(f.args, "posonlyargs", [])}
        if f.args.vararg:
            params.add(f.args.vararg.arg)
        if f.args.kwarg:
            params.add(f.args.kwarg.arg)
        sc = _Scope()
        for st in f.body:
            sc.visit(st)
        names = {n for n in sc.bound if n not in params and n not in sc.keep and n not in SKIP_NAMES and not (n.startswith("__") and n.endswith("__")) and not n.endswith("_rn")}
        if not names or _nested_rebinds(f, names):
            continue
        mapping = {n: f"{n}_rn" for n in names}
        f.body = [_Rename(mapping).visit(st) for st in f.body]
    ast.fix_missing_locations(tree)
    return ast.unparse(tree) + "\n"


def mutant_rename_sweep(props, repo="/repo", jobs=16, twins=False):
    """Every mutant of selftest_data, with all locals of the edited modules renamed on top: the mutant must still be reported
    (with twins=True: every twin, renamed on top, must stay silent)."""
    from .selftest_data import MUTANTS, TWINS

    if twins:
        MUTANTS = TWINS

    tasks, meta = [], {}
    for p in props:
        base = _baseline_keys(p, repo)
        for m in MUTANTS.get(p, []):
            overlay, ok = {}, True
            for rel, old, new in m["edits"]:
                src = overlay.get(rel) or _read(repo, rel)
                if old not in src:
                    ok = False
                    break
                overlay[rel] = src.replace(old, new, 1)
            if not ok:
                continue
            try:
                overlay = {rel: rename_all_locals(src) for rel, src in overlay.items()}
            except SyntaxError:
                continue
            tasks.append((p, repo, m["id"], overlay, base))
    survivors, n = [], 0
    with ProcessPoolExecutor(max_workers=jobs) as ex:
        for prop, vid, status, detail in ex.map(_run, tasks, chunksize=2):
            n += 1
            if (status != "violation") if not twins else (status != "silent"):
                survivors.append((prop, vid, status, detail[:1]))
    return {"runs": n, "survivors": survivors}


def seeded_rename_sweep(props, repo="/repo", jobs=16):
    """Every seeded change, with all locals of the patched modules renamed on top, must still be reported."""
    from .selftest import apply_patch_overlay, seeded_variants

    tasks = []
    for p in props:
        base = _baseline_keys(p, repo)
        for name, patch_p, _meta in seeded_variants(p, repo):
            ov = apply_patch_overlay(repo, patch_p)
            if ov is None:
                continue
            try:
                ov = {rel: rename_all_locals(src) for rel, src in ov.items()}
            except SyntaxError:
                continue
            tasks.append((p, repo, "seeded:" + name, ov, base))
    survivors, n = [], 0
    with ProcessPoolExecutor(max_workers=jobs) as ex:
        for prop, vid, status, detail in ex.map(_run, tasks, chunksize=1):
            n += 1
            if status != "violation":
                survivors.append((prop, vid, status, detail[:1]))
    return {"runs": n, "survivors": survivors}


def reformat_twins(repo, rels=None) -> List[Tuple[str, Dict[str, str]]]:
    out = []
    for rel in rels or _module_files(repo):
        src = _read(repo, rel)
        try:
            tree = ast.parse(src)
        except SyntaxError:
            continue
        out.append((f"reformat:{rel}", {rel: ast.unparse(tree) + "\n"}))
    return out


def _run(args):
    prop, repo, vid, overlay, base = args
    try:
        _, results, _ = run_property(prop, repo, "quick", overlay=overlay)
    except Exception as err:  # noqa
        return prop, vid, "error", [repr(err)[:200]]
    new_v = [(r.rule, r.construct, r.what[:160]) for r in results if r.verdict == VIOLATION and (r.rule, r.construct) not in base]
    und = [(r.rule, r.construct, r.what[:160]) for r in results if r.verdict == UNDECIDED]
    return prop, vid, ("violation" if new_v else "undecided" if und else "silent"), new_v or und


def consulted_modules(prop, repo) -> set:
    _, _, info = run_property(prop, repo, "quick")
    mods = set()
    for m in (info or {}).get("consulted", []) if isinstance(info, dict) else []:
        mods.add(m)
    return mods


def sweep(props, repo="/repo", kinds=("rename", "reformat"), rels=None, jobs=16, verbose=False):
    variants = []
    if "reformat" in kinds:
        variants += reformat_twins(repo, rels)
    if "rename" in kinds:
        variants += rename_twins(repo, rels)
    tasks = []
    for p in props:
        ctx0, results0, _ = run_property(p, repo, "quick")
        base = {(r.rule, r.construct) for r in results0 if r.verdict == VIOLATION}
        consulted = {m.replace(".", "/") + ".py" for m in ctx0.model.consulted} | {m.replace(".", "/") + "/__init__.py" for m in ctx0.model.consulted}
        for vid, ov in variants:
            # a rule can only be disturbed by a module it consults
            if not (set(ov) & consulted):
                continue
            tasks.append((p, repo, vid, ov, base))
    alarms = []
    n = 0
    with ProcessPoolExecutor(max_workers=jobs) as ex:
        for prop, vid, status, detail in ex.map(_run, tasks, chunksize=4):
            n += 1
            if status != "silent":
                alarms.append((prop, vid, status, detail))
    return {"variants": len(variants), "runs": n, "alarms": alarms}


def main(argv):
    from . import rules

    props = [a for a in argv if a.startswith("C") and len(a) == 3] or sorted(rules.MODULES)
    kinds = ("rename", "reformat")
    rels = None
    if "--kind" in argv:
        kinds = (argv[argv.index("--kind") + 1],)
    if "--module" in argv:
        rels = [argv[argv.index("--module") + 1]]
    if kinds == ("seeded-rename",):
        r = seeded_rename_sweep(props)
        print(f"seeded changes under renaming of every local: {r['runs']} runs, {len(r['survivors'])} not reported")
        for sv in r["survivors"]:
            print("   SURVIVED", sv)
        return 1 if r["survivors"] else 0
    if kinds in (("mutant-rename",), ("twin-rename",)):
        r = mutant_rename_sweep(props, twins=kinds == ("twin-rename",))
        print(f"{'twins' if kinds == ('twin-rename',) else 'mutants'} under renaming of every local: {r['runs']} runs, {len(r['survivors'])} {'alarms' if kinds == ('twin-rename',) else 'not reported'}")
        for sv in r["survivors"]:
            print("   SURVIVED", sv)
        return 1 if r["survivors"] else 0
    r = sweep(props, kinds=kinds, rels=rels, verbose="-v" in argv)
    print(f"auto twins: {r['variants']} variants x {len(props)} properties = {r['runs']} runs, {len(r['alarms'])} alarms")
    seen = set()
    for prop, vid, status, detail in sorted(r["alarms"]):
        for d in detail[:3] if "-v" in argv else detail[:1]:
            key = (prop, d[0] if isinstance(d, tuple) else d, vid)
            if key in seen:
                continue
            seen.add(key)
            print(f"   {prop} {status} {vid}: {d}")
    return 1 if r["alarms"] else 0


if __name__ == "__main__":
    sys.exit(main(sys.argv[1:]))
