"""Definite initialisation of instance attributes by a class's constructor chain.

For a concrete class C the analysis walks C.__init__ (resolved through the MRO), following `super().m(...)` to the next
definition after the defining class in C's MRO and `self.m(...)` to C's own resolution of m, and keeps the set of
attributes that are stored on self on EVERY path (must-analysis: `if` = intersection of the arms, a loop body adds nothing,
a `try` body is assumed to be abandoned before its first statement when a handler runs, an arm that always raises drops out
of the intersection).  Two facts come out of it:

  definite(C)       attributes every constructed instance of C has;
  early_reads(C)    `self.X` loads met during the walk (inside the constructor chain) while X is neither definite yet nor
                    provided at class level - reading them raises AttributeError inside the constructor.

Nothing is executed; the walk is over the syntax tree only.
"""
from __future__ import annotations

import ast

MAX_DEPTH = 12


def class_level(c):
    out = set()
    for k in c.mro():
        out |= set(k.methods) | set(k.attrs)
        for n in k.node.body:
            if isinstance(n, ast.AnnAssign) and isinstance(n.target, ast.Name):
                out.add(n.target.id)
            elif isinstance(n, (ast.FunctionDef, ast.AsyncFunctionDef, ast.ClassDef)):
                out.add(n.name)
            elif isinstance(n, ast.Assign):
                for t in n.targets:
                    for e in ast.walk(t):
                        if isinstance(e, ast.Name):
                            out.add(e.id)
    return out


def has_external_base(ctx, c):
    from .consteval import ClassRef

    for k in c.mro():
        for b in k.node.bases:
            v = ctx.folder.eval(b, k.module)
            if not isinstance(v, ClassRef):
                if isinstance(b, ast.Name) and b.id == "object":
                    continue
                return True
    return False


class _Walk:
    def __init__(self, ctx, c):
        self.ctx = ctx
        self.c = c
        self.mro = c.mro()
        self.level = class_level(c)
        self.early = []  # (attr, node, method qualname)
        self.stack = []

    def resolve(self, name, after=None):
        ks = self.mro
        if after is not None:
            try:
                ks = ks[ks.index(after) + 1:]
            except ValueError:
                return None, None
        for k in ks:
            if name in k.methods:
                return k, k.methods[name]
        return None, None

    # -- expressions: record loads, follow calls --------------------------------------------------------------------
    def expr(self, e, S, owner, selfname):
        """Visit expression e in evaluation order (approximately: children first); returns the set after it."""
        if e is None:
            return S
        if isinstance(e, (ast.Lambda, ast.FunctionDef)):
            return S
        if isinstance(e, ast.Call):
            f = e.func
            # hasattr(self, 'x') / getattr(self, 'x', default) never raise
            if isinstance(f, ast.Name) and f.id in ("hasattr", "getattr") and len(e.args) >= 2:
                for a in e.args[1:]:
                    S = self.expr(a, S, owner, selfname)
                return S
            for a in e.args:
                S = self.expr(a.value if isinstance(a, ast.Starred) else a, S, owner, selfname)
            for kw in e.keywords:
                S = self.expr(kw.value, S, owner, selfname)
            if isinstance(f, ast.Attribute):
                v = f.value
                if isinstance(v, ast.Name) and v.id == selfname:
                    k, m = self.resolve(f.attr)
                    if m is not None:
                        return self.call(k, m, S)
                    return self.expr(f, S, owner, selfname)
                if isinstance(v, ast.Call) and isinstance(v.func, ast.Name) and v.func.id == "super":
                    k, m = self.resolve(f.attr, after=owner)
                    if m is not None:
                        return self.call(k, m, S)
                    return S
            return self.expr(f, S, owner, selfname)
        if isinstance(e, ast.Attribute):
            if isinstance(e.value, ast.Name) and e.value.id == selfname and isinstance(e.ctx, ast.Load):
                a = e.attr
                if a not in S and a not in self.level and not (a.startswith("__") and a.endswith("__")):
                    self.early.append((a, e, tuple(self.stack)))
                return S
            return self.expr(e.value, S, owner, selfname)
        if isinstance(e, ast.BoolOp):
            # only the first operand is certainly evaluated; later operands may read, with the set unchanged
            S = self.expr(e.values[0], S, owner, selfname)
            for v in e.values[1:]:
                self.expr(v, S, owner, selfname)
            return S
        if isinstance(e, ast.IfExp):
            S = self.expr(e.test, S, owner, selfname)
            a = self.expr(e.body, S, owner, selfname)
            b = self.expr(e.orelse, S, owner, selfname)
            return a & b
        if isinstance(e, (ast.ListComp, ast.SetComp, ast.GeneratorExp, ast.DictComp)):
            S = self.expr(e.generators[0].iter, S, owner, selfname)
            for g in e.generators:
                for c in g.ifs:
                    self.expr(c, S, owner, selfname)
            for part in ([e.key, e.value] if isinstance(e, ast.DictComp) else [e.elt]):
                self.expr(part, S, owner, selfname)
            return S
        for ch in ast.iter_child_nodes(e):
            if isinstance(ch, ast.expr):
                S = self.expr(ch, S, owner, selfname)
        return S

    def call(self, k, m, S):
        key = (k.key, m.name)
        if key in self.stack or len(self.stack) >= MAX_DEPTH:
            return S
        if any(isinstance(d, ast.Name) and d.id in ("staticmethod", "classmethod", "property") for d in m.decorator_list):
            return S
        if not m.args.args:
            return S
        self.stack.append(key)
        try:
            out, _ = self.block(m.body, S, k, m.args.args[0].arg)
            return S if out is None else out
        finally:
            self.stack.pop()

    # -- statements -------------------------------------------------------------------------------------------------
    def store(self, t, S, owner, selfname):
        if isinstance(t, ast.Attribute) and isinstance(t.value, ast.Name) and t.value.id == selfname:
            return S | {t.attr}
        if isinstance(t, (ast.Tuple, ast.List)):
            for e in t.elts:
                S = self.store(e.value if isinstance(e, ast.Starred) else e, S, owner, selfname)
            return S
        if isinstance(t, (ast.Subscript, ast.Attribute)):
            return self.expr(t.value, self.expr(getattr(t, "slice", None), S, owner, selfname), owner, selfname)
        return S

    def block(self, stmts, S, owner, selfname):
        """Returns (set at normal fall-through or None when the block never falls through, set of sets at `return`)."""
        rets = []
        for s in stmts:
            S, r = self.stmt(s, S, owner, selfname)
            rets += r
            if S is None:
                return None, rets
        return S, rets

    def stmt(self, s, S, owner, selfname):
        E = lambda e, S_: self.expr(e, S_, owner, selfname)
        if isinstance(s, ast.Assign):
            S = E(s.value, S)
            for t in s.targets:
                S = self.store(t, S, owner, selfname)
            return S, []
        if isinstance(s, ast.AnnAssign):
            if s.value is not None:
                S = E(s.value, S)
                S = self.store(s.target, S, owner, selfname)
            return S, []
        if isinstance(s, ast.AugAssign):
            S = E(s.value, S)
            if isinstance(s.target, ast.Attribute):
                load = ast.Attribute(value=s.target.value, attr=s.target.attr, ctx=ast.Load())
                ast.copy_location(load, s.target)
                S = E(load, S)
            return self.store(s.target, S, owner, selfname), []
        if isinstance(s, ast.Expr):
            return E(s.value, S), []
        if isinstance(s, ast.Return):
            S = E(s.value, S)
            return None, [S]
        if isinstance(s, ast.Raise):
            E(s.exc, S)
            return None, []
        if isinstance(s, ast.If):
            S = E(s.test, S)
            a, ra = self.block(s.body, S, owner, selfname)
            b, rb = self.block(s.orelse, S, owner, selfname) if s.orelse else (S, [])
            out = a if b is None else b if a is None else a & b
            return out, ra + rb
        if isinstance(s, (ast.For, ast.AsyncFor)):
            S = E(s.iter, S)
            _, r = self.block(s.body, S, owner, selfname)
            if s.orelse:
                o, r2 = self.block(s.orelse, S, owner, selfname)
                return (S if o is None else o), r + r2
            return S, r
        if isinstance(s, ast.While):
            S = E(s.test, S)
            _, r = self.block(s.body, S, owner, selfname)
            return S, r
        if isinstance(s, (ast.With, ast.AsyncWith)):
            for it in s.items:
                S = E(it.context_expr, S)
                if it.optional_vars is not None:
                    S = self.store(it.optional_vars, S, owner, selfname)
            return self.block(s.body, S, owner, selfname)
        if isinstance(s, ast.Try):
            a, r = self.block(s.body, S, owner, selfname)
            if a is not None and s.orelse:
                a, r2 = self.block(s.orelse, a, owner, selfname)
                r += r2
            outs = [a]
            for h in s.handlers:
                o, rh = self.block(h.body, S, owner, selfname)
                r += rh
                outs.append(o)
            live = [o for o in outs if o is not None]
            out = None
            if live:
                out = set(live[0])
                for o in live[1:]:
                    out &= o
            if s.finalbody:
                f, rf = self.block(s.finalbody, S, owner, selfname)
                r += rf
                if f is None:
                    out = None
                elif out is not None:
                    out = out | (f - S) | S
            return out, r
        if isinstance(s, ast.Delete):
            for t in s.targets:
                if isinstance(t, ast.Attribute) and isinstance(t.value, ast.Name) and t.value.id == selfname:
                    S = S - {t.attr}
            return S, []
        if isinstance(s, (ast.FunctionDef, ast.AsyncFunctionDef, ast.ClassDef, ast.Pass, ast.Import, ast.ImportFrom, ast.Global, ast.Nonlocal, ast.Break, ast.Continue)):
            # break/continue: the loop analysis already treats the body as adding nothing
            return (None if isinstance(s, (ast.Break, ast.Continue)) else S), []
        if isinstance(s, ast.Assert):
            return E(s.test, S), []
        for ch in ast.iter_child_nodes(s):
            if isinstance(ch, ast.expr):
                S = E(ch, S)
        return S, []


def analyse(ctx, c):
    """-> (definite set or None when the class has no analysable __init__, early reads, class-level names)."""
    w = _Walk(ctx, c)
    k, init = w.resolve("__init__")
    if init is None or not init.args.args:
        return None, [], w.level
    w.stack.append((k.key, "__init__"))
    out, rets = w.block(init.body, frozenset(), k, init.args.args[0].arg)
    sets = [frozenset(x) for x in ([out] if out is not None else []) + rets]
    if not sets:
        return None, w.early, w.level
    d = set(sets[0])
    for x in sets[1:]:
        d &= x
    return d, w.early, w.level


def possibly_stored(c):
    out = set()
    for k in c.mro():
        for n in ast.walk(k.node):
            if isinstance(n, ast.Attribute) and isinstance(n.ctx, ast.Store) and isinstance(n.value, ast.Name) and n.value.id == "self":
                out.add(n.attr)
    return out


def self_reads(c):
    """{attr: [node, ...]} - `self.X` loads in the methods of c's MRO that are not guarded by hasattr/getattr."""
    out = {}
    for k in c.mro():
        for name, m in k.methods.items():
            if not m.args.args:
                continue
            first = m.args.args[0].arg
            for n in ast.walk(m):
                if isinstance(n, ast.Attribute) and isinstance(n.ctx, ast.Load) and isinstance(n.value, ast.Name) and n.value.id == first:
                    out.setdefault(n.attr, []).append((k, m, n))
    return out
