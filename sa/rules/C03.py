"""C03 -- One result per request, in request order, with failures isolated."""
from __future__ import annotations

import ast

from ..astutil import attr_path, call_name, walk, src, enclosing_func
from ..boolexpr import NotBoolean, equivalent, parse_spec, parse_spec_atom, show, to_formula, make_fold
from ..consteval import UNKNOWN, ClassRef
from ..excflow import ExcFlow
from ..framework import rule
from ..guards import branch_outcome
from ..linexpr import atom_name, cmp_norm
from ..wrap import WrapSpec, wrap_problems
from .common import LX, PB, PL, ckey

P = "C03"
EXPLANATION = (
    "Static rules D3.1-D3.9 (DESIGN.md section 5, C03): truth table of Tag.__bool__; request ids assigned by position and "
    "stored on every path of the parse loop (post-dominance incl. exceptional edges) with _parse_tag_request converting every "
    "exception to RequestError; path enumeration of one iteration of the result-assembly loops of read/write (every path, "
    "including the exceptional ones into `except Exception`, executes exactly one results.append); the return shape; error "
    "requests skipped when building and reported when assembling (dominance); each request lands in exactly one packet; "
    "results keyed by request id; and the explicit-exception escape set of the build phase over the resolved call graph "
    "(constructors that raise, path encoding, conversions) plus use-before-None-check of table look-ups; per-request methods of a packet shared by merged requests never store the packet-level error. Decides "
    "the structural conditions of '1 result per request, failures isolated'; arbitrary implicit exceptions in user-value handling "
    "are outside."
)
ASSUMPTIONS = ["logger calls, Tag(...) construction and list.append do not raise", "transport failures (CommError) and a refused Forward Open (ResponseError) legitimately abort the whole call"]


@rule(P, "D3.1", "T-TT", floor=1)
def d3_1(ctx):
    """Tag.__bool__ == (value is not None and error is None)."""
    tag = ctx.model.cls("pycomm3.tag:Tag")
    fn = tag.methods.get("__bool__")
    if fn is None:
        ctx.violation(ckey(tag.key + ".__bool__"), tag.node, "Tag has no __bool__: a NamedTuple is always truthy")
        return
    sp = ctx.spec("reply_validity")
    amap = {k: parse_spec_atom(v) for k, v in sp["atoms"].items()}
    want = parse_spec(sp["formulas"]["Tag.__bool__"], amap)
    rets = [s for s in fn.body if isinstance(s, ast.Return)]
    try:
        f = to_formula(rets[0].value, make_fold(ctx.folder, tag.module, cls=tag))
        eq, cex = equivalent(f, want)
    except (NotBoolean, IndexError) as err:
        ctx.violation(ckey(tag.key + ".__bool__"), fn, f"__bool__ is not a boolean function of value/error: {err}")
        return
    ctx.check(eq, ckey(tag.key + ".__bool__"), fn, "truthy iff value is not None and error is None", "Tag truthiness differs from `value is not None and error is None`", formula=show(f), counterexample=cex)


@rule(P, "D3.2", "T-ALLPATHS", floor=3)
def d3_2(ctx):
    """_parse_requested_tags: ids by position, the record is stored on every path of every iteration; _parse_tag_request raises only RequestError."""
    # numbering by position, one record per requested tag on every path, a failing tag recorded as that tag's error: decided by
    # folding `_parse_requested_tags` on witness requests (D1.17: several tags with a bad one in the middle) - an earlier form
    # required `enumerate(tags)` and a `finally:` store and alarmed when the record was stored first and filled in place
    from .driver import d1_17

    d1_17(ctx)
    ptr = ctx.model.func(f"{LX}:LogixDriver._parse_tag_request")
    probs = wrap_problems(ptr.node, WrapSpec(mode="raise", allowed_raise={"RequestError"}, passthrough={"RequestError"}))
    if probs:
        ctx.violation(ckey(ptr, "wrap"), probs[0][0], f"{probs[0][1]} ({len(probs)} uncontained statement(s)): a malformed request string raises something other than RequestError out of read()/write()")
    else:
        ctx.ok(ckey(ptr, "wrap"), ptr.node, "every failure of request parsing becomes RequestError")


def _assembly_loop(ctx, fn, over):
    """The outermost loop of the method that ranges over the requests (its iterable mentions `over`: enumerate, zip, the
    name itself) and appends to `results`."""
    for n in walk(fn.node):
        if isinstance(n, ast.For) and any(isinstance(x, ast.Name) and x.id == over for x in walk(n.iter)) and any(isinstance(c, ast.Call) and attr_path(c.func) == "results.append" for c in walk(n)):
            p = getattr(n, "_parent", None)
            while p is not None and not isinstance(p, (ast.For, ast.While)):
                p = getattr(p, "_parent", None)
            if p is None:
                return n
    return None


@rule(P, "D3.3", "T-PATHS", floor=2)
def d3_3(ctx):
    """Every path through one iteration of the result-assembly loops appends exactly one result."""
    for name, over in (("read", "tags"), ("write", "tags_values")):
        fn = ctx.model.func(f"{LX}:LogixDriver.{name}")
        lp = _assembly_loop(ctx, fn, over)
        key = ckey(fn, "one-append")
        if lp is None:
            # assembled some other way (a comprehension, a helper): one result per request, in order, is then decided by the witness
            # request lists alone (D1.14 / D3.11: several requests, failed ones among them)
            from .driver import d1_14, d3_11

            (d1_14 if name == "read" else d3_11)(ctx)
            continue
        g = ctx.cfg(fn.node)
        header = g.nodes_of(lp)[0]
        appends = {n for n in g.nodes if n.kind == "stmt" and n.ast is not None and any(isinstance(c, ast.Call) and attr_path(c.func) == "results.append" for c in walk(n.ast)) and _inside(n.ast, lp)}
        try:
            paths = g.paths(header, {header, g.exit, g.raise_exit}, max_visits=2)
        except RuntimeError:
            ctx.undecided(key, lp, "path explosion")
            continue
        counts = {}
        bad = None
        n_iter = 0
        for p in paths:
            if len(p) < 2 or p[1] not in [s for s, lab in header.succ if lab is True]:
                continue
            n_iter += 1
            # a node's effect happens only when the path leaves it through a non-exceptional edge
            c = 0
            for k in range(1, len(p) - 1):
                if p[k] in appends and any(s is p[k + 1] and lab != "exc" for s, lab in p[k].succ):
                    c += 1
            if p[-1] is not header:
                # leaves the loop by return/raise from inside the body
                bad = bad or (p, c, "leaves the loop")
                continue
            counts[c] = counts.get(c, 0) + 1
            if c != 1 and bad is None:
                bad = (p, c, "appends")
        if bad or set(counts) != {1}:
            p, c, why = bad if bad else (None, None, None)
            ctx.violation(key, lp, f"a path through one iteration {why} {c} result(s) (lines {[x.lineno for x in (p or []) if x.lineno][:14]}): the result list gets out of step with the requests", path_counts=counts)
        else:
            ctx.ok(key, lp, f"all {n_iter} paths of one iteration (incl. exceptional edges) append exactly one result", paths=n_iter)
        # results is created empty right before the loop and returned
        init = [n for n in fn.node.body if isinstance(n, ast.Assign) and atom_name(n.targets[0]) == "results"]
        ctx.check(len(init) == 1 and isinstance(init[0].value, ast.List) and not init[0].value.elts, ckey(fn, "results-init"), init[0] if init else fn.node, "results starts empty", "results is not initialised to an empty list exactly once")


def _inside(node, anc):
    p = node
    while p is not None:
        if p is anc:
            return True
        p = getattr(p, "_parent", None)
    return False


@rule(P, "D3.4", "T-WITNESS", floor=2)
def d3_4(ctx):
    """Return shape: a list (in request order) for more than one request, else the single Tag.  Decided by folding `read` and
    `write` on one-request and several-request witnesses (D1.14, D3.11)."""
    from .driver import d1_14, d3_11

    d1_14(ctx)
    d3_11(ctx)


@rule(P, "D3.5", "T-WITNESS", floor=6)
def d3_5(ctx):
    """Errored requests never get a packet, and the assembly loops report their error without touching the results of the
    others.  Decided by folding the request builders (D1.15, D2.12: request lists that contain a request that failed to parse,
    an unencodable value, a refused packet) and `read` / `write` (D1.14, D3.11) on witnesses."""
    from .driver import d1_14, d1_15, d2_12, d3_11

    d1_15(ctx)
    d2_12(ctx)
    d1_14(ctx)
    d3_11(ctx)


@rule(P, "D3.6", "T-WITNESS", floor=4)
def d3_6(ctx):
    """Every buildable request lands in exactly one packet, in order; packets are grouped so that they fit the connection; every
    group is sent.  Decided by folding the multi-request builders on witness request lists and connection sizes (D1.15, D2.12:
    mixed requests, grouping of equal-sized requests).  An earlier form required the grouping loop to be a single `for` in the
    builder itself and alarmed when it was extracted into a helper method."""
    from .driver import d1_15, d2_12

    d1_15(ctx)
    d2_12(ctx)


@rule(P, "D3.7", "T-WITNESS", floor=6)
def d3_7(ctx):
    """Results are stored under the request id of the very request / sub-request answered, with that request's tag; members of
    a multi-service reply pair positionally with the packet's requests.  Decided by folding `_send_requests` on witness
    requests and replies (D1.16) and the multi-service response class on witness frames (sa/rules/packets.py)."""
    from .driver import d1_16
    from .packets import _emit

    d1_16(ctx)
    _emit(ctx, {"multi-response"})


ALLOWED_ESCAPES = {"CommError", "ResponseError"}
USER_ORIGINS = (" tag_request_path:", " ReadModifyWriteRequestPacket.__init__:", " WriteTagRequestPacket.__init__:", " ReadModifyWriteRequestPacket.set_bit:", " encode_value:", " LogixDriver._parse_tag_request:", " LogixDriver._get_tag_info:", " _find_tag_index:")


@rule(P, "D3.8", "T-EXCFLOW", floor=3)
def d3_8(ctx):
    """Per-request failures do not escape read()/write(): explicit-exception escape set of the call graph; look-ups dereferenced before their None test."""
    su = ctx.model.cls("pycomm3.packets.ethernetip:SendUnitDataRequestPacket")
    pk = [c for c in ctx.model.subclasses(su) if c.module.name == PL]
    table = {"_type": [ctx.model.cls("pycomm3.cip.data_types:DataType")], "request": pk, "req": pk, "_request": pk, "r": pk, "new_request": pk, "self._sock": [], "segment": [ctx.model.cls("pycomm3.cip.data_types:CIPSegment")]}
    flow = ExcFlow(ctx, receiver_table=table, decorator_wrappers={"with_forward_open": "pycomm3.cip_driver:with_forward_open.wrapped"},
                   interest=lambda fr: any(o in fr for o in USER_ORIGINS))
    lx = ctx.model.cls(f"{LX}:LogixDriver")
    for name in ("read", "write"):
        fi = ctx.model.func(f"{LX}:LogixDriver.{name}")
        esc = flow.raises(fi)
        # per-request failures originate where request-specific data is interpreted; encoders applied to
        # library-generated values (sequence counts, lengths) are assumed not to fail
        bad = {}
        for k in esc:
            if k in ALLOWED_ESCAPES:
                continue
            for ch in flow.chains(fi, k):
                # from_request re-runs constructor checks on a tag_info that already passed them: not a new failure point
                if any(".from_request:" in frame for frame in ch):
                    continue
                # the raise itself sits in request-interpreting code, or the chain passes the tag-path builder whose
                # encoders receive the user's index strings
                hits = [o.strip(" :") for o in USER_ORIGINS if o in ch[-1]] or [o.strip(" :") for frame in ch for o in (" tag_request_path:", " _find_tag_index:", " encode_value:") if o in frame]
                if hits:
                    bad.setdefault(f"{k}@{hits[-1]}", ch)
        if not bad:
            ctx.ok(ckey(fi, "escapes"), fi.node, f"no exception raised while interpreting request data can leave {name}() (explicit escape set {sorted(esc)})", escapes=sorted(esc))
        for exc, chain in sorted(bad.items()):
            ctx.violation(ckey(fi, f"escapes:{exc}"), fi.node, f"{exc.split('@')[0]} (raised in {exc.split('@')[1]}) can escape {name}() instead of becoming a falsy Tag: " + " -> ".join(c.split(" ", 1)[1] for c in chain[-4:]), chain=list(chain))
    # constructors that raise RequestError must be constructed under a handler
    from .C17 import construction_sites
    from ..guards import in_try_with_handler

    for fi, call, cls, how in construction_sites(ctx):
        if fi.module.name != LX or how == "from_request":
            continue
        init = ctx.model.method(cls, "__init__")
        raising = init is not None and any(isinstance(r, ast.Raise) for k in cls.mro() if "__init__" in k.methods for r in walk(k.methods["__init__"]))
        if not raising:
            continue
        def contained(fn_node, site, owner, depth=0):
            """Under a handler for RequestError in its own function, or - for a private method - at every place the class calls it."""
            if in_try_with_handler(site, fn_node, {"RequestError", "PycommError"}) is not None:
                return True
            if depth > 3 or owner is None or not fn_node.name.startswith("_") or fn_node.name.startswith("__"):
                return False
            callers = [(m_, c_) for k_ in ctx.model.subclasses(owner) for m_ in k_.methods.values() if m_ is not fn_node for c_ in walk(m_)
                       if isinstance(c_, ast.Call) and attr_path(c_.func) == f"self.{fn_node.name}"]
            return bool(callers) and all(contained(m_, c_, owner, depth + 1) for m_, c_ in callers)

        h = True if contained(fi.node, call, fi.cls) else None
        ctx.check(h is not None, ckey(fi, f"ctor-contained:{cls.name}"), call, f"{cls.name}(...) is constructed under a handler for its RequestError", f"{cls.name}.__init__ can raise RequestError but this construction is outside any handler: one bad request aborts the whole call")
    # T-NULL: EnumMap.get(...) dereferenced without a preceding None test
    for c in pk:
        for m in c.methods.values():
            for n in walk(m):
                if isinstance(n, ast.Attribute) and isinstance(n.value, ast.Call) and isinstance(n.value.func, ast.Attribute) and n.value.func.attr == "get" and len(n.value.args) == 1:
                    tbl = ctx.folder.eval(n.value.func.value, c.module)
                    if isinstance(tbl, ClassRef) and tbl.ci.has_base_named("EnumMap"):
                        ctx.violation(ckey(f"{c.key}.{m.name}", f"null-deref:{src(n)}"), n, f"`{src(n)}`: the look-up returns None for an unknown key and is dereferenced before any None test (AttributeError escapes; the later `is None` test is dead)")
    if flow.unresolved:
        ctx.assume("calls not resolved by the escape analysis (treated as non-raising): " + ", ".join(sorted(flow.unresolved)[:40]))


@rule(P, "D3.9", "T-SHARED", floor=1)
def d3_9(ctx):
    """A packet shared by several requests (bit writes merged per tag) is never failed as a whole on behalf of one of them:
    the per-request methods called on it while merging do not store the packet-level error."""
    fn = ctx.model.func(f"{LX}:LogixDriver._write_build_multi_requests")
    f = fn.node
    # shared packets: a table stored into and read back under the same variable; the region is the innermost branch holding
    # the store (the variable name is reused for unshared packets elsewhere in the loop)
    from ..astutil import ancestors

    classes, calls, shared_vars = set(), [], set()
    for st in walk(f):
        if not (isinstance(st, ast.Assign) and isinstance(st.targets[0], ast.Subscript) and isinstance(st.targets[0].value, ast.Name) and isinstance(st.value, ast.Name)):
            continue
        table, var = st.targets[0].value.id, st.value.id
        branch = next((a for a in ancestors(st) if isinstance(a, ast.If)), None)
        if branch is None:
            continue
        arm = branch.body if any(st is x for s_ in branch.body for x in walk(s_)) else branch.orelse
        region = [x for s_ in arm for x in walk(s_)]
        if not any(isinstance(x, ast.Assign) and isinstance(x.value, ast.Subscript) and atom_name(x.value.value) == table and atom_name(x.targets[0]) == var for x in region):
            continue  # never read back: not a merge table
        shared_vars.add(var)
        for x in region:
            if isinstance(x, ast.Assign) and atom_name(x.targets[0]) == var and isinstance(x.value, ast.Call):
                c = ctx.folder.eval(x.value.func, fn.module)
                if isinstance(c, ClassRef):
                    classes.add(c.ci)
            if isinstance(x, ast.Call) and isinstance(x.func, ast.Attribute) and atom_name(x.func.value) == var:
                calls.append(x)
    # nothing is ever taken out of the merge table: a packet found there may already hold bits accepted for other requests
    tables_ = {st.targets[0].value.id for st in walk(f) if isinstance(st, ast.Assign) and isinstance(st.targets[0], ast.Subscript) and isinstance(st.targets[0].value, ast.Name)
               and any(isinstance(x, ast.Assign) and isinstance(x.value, ast.Subscript) and atom_name(x.value.value) == st.targets[0].value.id for x in walk(f))}
    removals = [c for c in walk(f) if isinstance(c, ast.Call) and isinstance(c.func, ast.Attribute) and c.func.attr in ("pop", "popitem", "clear") and atom_name(c.func.value) in tables_]
    removals += [d for d in walk(f) if isinstance(d, ast.Delete) and any(isinstance(t, ast.Subscript) and atom_name(t.value) in tables_ for t in d.targets)]
    if tables_:
        ctx.check(not removals, ckey(fn, "shared-packet-kept"), removals[0] if removals else f, f"merged packets stay registered in {sorted(tables_)} once created",
                  f"`{src(removals[0]) if removals else ''}` removes a merged packet from {sorted(tables_)}: bits already accepted into it for other requests of the call are discarded with it (and the packet ids derived from the table size repeat)")
    if not classes or not calls:
        ctx.undecided(ckey(fn, "shared-packet"), f, f"merged packet not identified (vars {sorted(shared_vars)}, classes {[c.name for c in classes]}, calls {len(calls)})")
        return
    for call in calls:
        for ci in classes:
            dc, m = ci.lookup(call.func.attr)
            if m is None:
                continue
            stores = []
            seen = set()

            def visit(ci_, m_, depth=0):
                if id(m_) in seen or depth > 3:
                    return
                seen.add(id(m_))
                for n in walk(m_):
                    if isinstance(n, ast.Attribute) and isinstance(n.ctx, ast.Store) and atom_name(n.value) == "self" and n.attr in ("error", "_error"):
                        stores.append(n)
                    if isinstance(n, ast.Call) and isinstance(n.func, ast.Attribute) and atom_name(n.func.value) == "self":
                        _, m2 = ci_.lookup(n.func.attr)
                        if m2 is not None:
                            visit(ci_, m2, depth + 1)

            visit(ci, m)
            ctx.check(not stores, ckey(f"{ci.key}.{call.func.attr}", "no-packet-error"), stores[0] if stores else m, f"{call.func.attr}() (called once per merged request) leaves the shared packet's error untouched",
                      f"{ci.name}.{call.func.attr}() is called for each request merged into one packet and stores the packet-level `{stores[0].attr if stores else ''}`: CIPDriver.send() then skips the packet and write() copies "
                      f"the one failure to every merged request - one request's problem changes the outcome of the others", caller=fn.key)
