import sys
sys.path.insert(0, '/repo')
exec(open('/verif/repairs/c04_multi_read_demo.py').read().split("for conn in (500, 4000):")[0])
for conn in (500, 4000):
  for nw in range((conn-32)//4, (conn-8)//4+1):
    d = driver(conn)
    parsed = d._parse_requested_tags([f'a{{{nw}}}', 'b'])
    parsed[0]['value'] = [1] * nw; parsed[1]['value'] = 1
    reqs = d._write_build_multi_requests(parsed)
    for r in reqs:
        if hasattr(r,'requests') and [x.tag for x in r.requests] == ['a']:
            frame = r.build_request(b'CID!', 7, b'_pycomm_', 0)
            # encapsulation header 24 + interface handle 4 + timeout 2 + item count 2 + address item (2+2+4) + data item header (2+2)
            connected = len(frame) - 24 - 4 - 2 - 2 - 8 - 4
            print(conn, 'write a{%d}' % nw, '+ b: a alone in a Multiple Service packet, connected data item', connected, 'bytes', 'OVER' if connected > conn else 'ok')
