"""Linear integer normaliser and comparison normaliser.

lin(e) turns an integer-valued expression into  const + sum(coef * atom)
where atoms are canonical strings of the non-linear leaves (names, attribute
reads, len(x), calls, and the derived operators  x//c, x%c  in canonical form:
x >> k == x // 2**k,  x & (2**k - 1) == x % 2**k,  x << k == x * 2**k,
a - (a // k) * k == a % k).  Constants are folded with the model's folder
when one is supplied.

cmp_norm(test) turns a comparison into a canonical  (Lin <= 0) / (Lin == 0) /
(Lin != 0)  form over the integers, so  a < b,  b > a,  a <= b - 1,
not (a >= b)  are all the same fact.
"""
from __future__ import annotations

import ast
from typing import Callable, Dict, Optional, Tuple

from .astutil import dump


class Lin:
    __slots__ = ("const", "terms")

    def __init__(self, const=0, terms=None):
        self.const = const
        self.terms: Dict[str, int] = {k: v for k, v in (terms or {}).items() if v != 0}

    def __add__(self, o):
        t = dict(self.terms)
        for k, v in o.terms.items():
            t[k] = t.get(k, 0) + v
        return Lin(self.const + o.const, t)

    def __neg__(self):
        return Lin(-self.const, {k: -v for k, v in self.terms.items()})

    def __sub__(self, o):
        return self + (-o)

    def scale(self, c):
        return Lin(self.const * c, {k: v * c for k, v in self.terms.items()})

    def is_const(self):
        return not self.terms

    def key(self):
        return (self.const, tuple(sorted(self.terms.items())))

    def __eq__(self, o):
        return isinstance(o, Lin) and self.key() == o.key()

    def __hash__(self):
        return hash(self.key())

    def __repr__(self):
        parts = [f"{v}*{k}" if v != 1 else k for k, v in sorted(self.terms.items())]
        if self.const or not parts:
            parts.append(str(self.const))
        return " + ".join(parts)

    def single_atom(self) -> Optional[str]:
        if self.const == 0 and len(self.terms) == 1:
            (k, v), = self.terms.items()
            if v == 1:
                return k
        return None


def atom_name(e) -> str:
    """Canonical readable atom: source text without spaces."""
    try:
        return ast.unparse(e).replace(" ", "")
    except Exception:
        return dump(e)


def _pow2(n) -> Optional[int]:
    if isinstance(n, int) and n > 0 and n & (n - 1) == 0:
        return n.bit_length() - 1
    return None


def lin(e, const_of: Optional[Callable] = None, subst: Optional[Dict[str, "Lin"]] = None) -> Optional[Lin]:
    """const_of(expr) -> int | None folds constants; subst maps local names to Lin."""

    def cval(x):
        if isinstance(x, ast.Constant) and isinstance(x.value, int) and not isinstance(x.value, bool):
            return x.value
        if const_of is not None:
            v = const_of(x)
            if isinstance(v, int) and not isinstance(v, bool):
                return v
        return None

    def go(x) -> Optional[Lin]:
        c = cval(x)
        if c is not None:
            return Lin(c)
        if isinstance(x, ast.Name) and subst and x.id in subst:
            return subst[x.id]
        if isinstance(x, ast.UnaryOp) and isinstance(x.op, ast.USub):
            a = go(x.operand)
            return -a if a is not None else None
        if isinstance(x, ast.UnaryOp) and isinstance(x.op, ast.UAdd):
            return go(x.operand)
        if isinstance(x, ast.BinOp):
            a, b = go(x.left), go(x.right)
            if isinstance(x.op, ast.Add) and a is not None and b is not None:
                return a + b
            if isinstance(x.op, ast.Sub) and a is not None and b is not None:
                r = a - b
                # a - (a // k) * k  ==  a % k
                return _fold_mod(r)
            if isinstance(x.op, ast.Mult) and a is not None and b is not None:
                if a.is_const():
                    return b.scale(a.const)
                if b.is_const():
                    return a.scale(b.const)
                ka, kb = sorted([repr(a), repr(b)])
                return Lin(0, {f"({ka})*({kb})": 1})
            if isinstance(x.op, ast.LShift) and a is not None and b is not None and b.is_const() and b.const >= 0:
                return a.scale(1 << b.const)
            if isinstance(x.op, (ast.FloorDiv, ast.RShift)) and a is not None and b is not None and b.is_const():
                k = b.const if isinstance(x.op, ast.FloorDiv) else (1 << b.const if b.const >= 0 else None)
                if k:
                    if a.is_const():
                        return Lin(a.const // k)
                    return Lin(0, {f"({a!r})//{k}": 1})
            if isinstance(x.op, ast.Mod) and a is not None and b is not None and b.is_const() and b.const:
                if a.is_const():
                    return Lin(a.const % b.const)
                return Lin(0, {f"({a!r})%{b.const}": 1})
            if isinstance(x.op, ast.BitAnd) and a is not None and b is not None:
                for p, q in ((a, b), (b, a)):
                    if q.is_const() and _pow2(q.const + 1) is not None and not p.is_const():
                        return Lin(0, {f"({p!r})%{q.const + 1}": 1})
            if isinstance(x.op, ast.Div):
                if a is not None and b is not None:
                    return Lin(0, {f"({a!r})/({b!r})": 1})  # true division: a distinct (float) atom
            return Lin(0, {atom_name(x): 1})
        if isinstance(x, (ast.Name, ast.Attribute, ast.Call, ast.Subscript)):
            if isinstance(x, ast.Call) and isinstance(x.func, ast.Name) and x.func.id == "len" and len(x.args) == 1:
                return Lin(0, {f"len({atom_name(x.args[0])})": 1})
            if isinstance(x, ast.Call) and isinstance(x.func, ast.Name) and x.func.id == "int" and len(x.args) == 1:
                return go(x.args[0]) or Lin(0, {atom_name(x): 1})
            return Lin(0, {atom_name(x): 1})
        if isinstance(x, ast.IfExp):
            return Lin(0, {atom_name(x): 1})
        return None

    return go(e)


def _fold_mod(r: Lin) -> Lin:
    # pattern: 1*A  + (-k)*((A)//k)   ->  (A)%k
    terms = dict(r.terms)
    for name, coef in list(terms.items()):
        if name.endswith(")") is False and "//" in name:
            inner, _, k = name.rpartition("//")
            try:
                k = int(k)
            except ValueError:
                continue
            inner = inner[1:-1] if inner.startswith("(") and inner.endswith(")") else inner
            if coef == -k and terms.get(inner) == 1 or (coef == -k and inner in terms and terms[inner] == 1):
                t2 = dict(terms)
                del t2[name]
                del t2[inner]
                t2[f"({inner})%{k}"] = t2.get(f"({inner})%{k}", 0) + 1
                return Lin(r.const, t2)
    return r


NEG = {"<=": ">", "<": ">=", ">": "<=", ">=": "<", "==": "!=", "!=": "=="}
_OPS = {ast.Lt: "<", ast.LtE: "<=", ast.Gt: ">", ast.GtE: ">=", ast.Eq: "==", ast.NotEq: "!="}


def cmp_norm(test, const_of=None, subst=None, negate=False) -> Optional[Tuple[str, Lin]]:
    """Canonical form of an integer comparison:  ("<=0", L) | ("==0", L) | ("!=0", L).  None if not a comparison."""
    while isinstance(test, ast.UnaryOp) and isinstance(test.op, ast.Not):
        negate = not negate
        test = test.operand
    if not isinstance(test, ast.Compare) or len(test.ops) != 1:
        return None
    op = _OPS.get(type(test.ops[0]))
    if op is None:
        return None
    a = lin(test.left, const_of, subst)
    b = lin(test.comparators[0], const_of, subst)
    if a is None or b is None:
        return None
    if negate:
        op = NEG[op]
    d = a - b
    if op == "<=":
        return ("<=0", d)
    if op == "<":
        return ("<=0", d + Lin(1))
    if op == ">=":
        return ("<=0", -d)
    if op == ">":
        return ("<=0", (-d) + Lin(1))
    if op == "==":
        return ("==0", _sign_norm(d))
    return ("!=0", _sign_norm(d))


def _sign_norm(d: Lin) -> Lin:
    items = sorted(d.terms.items())
    if items and items[0][1] < 0 or (not items and d.const < 0):
        return -d
    return d


def emptiness(test, var_atom: str, negate=False) -> Optional[bool]:
    """Does `test` decide that the bytes/sequence named var_atom is EMPTY?
    returns True  -> test is true exactly when it is empty
            False -> test is true exactly when it is non-empty
            None  -> something else."""
    while isinstance(test, ast.UnaryOp) and isinstance(test.op, ast.Not):
        negate = not negate
        test = test.operand
    if atom_name(test) == var_atom:
        return negate  # `x` is true when non-empty
    if isinstance(test, ast.Compare) and len(test.ops) == 1:
        l, r = test.left, test.comparators[0]
        for a, b in ((l, r), (r, l)):
            if atom_name(a) == var_atom and isinstance(b, ast.Constant) and b.value in (b"", "", ()):
                if isinstance(test.ops[0], ast.Eq):
                    return not negate
                if isinstance(test.ops[0], ast.NotEq):
                    return negate
    c = cmp_norm(test, negate=negate)
    if c is not None:
        kind, L = c
        ln = f"len({var_atom})"
        if set(L.terms) == {ln}:
            k = L.terms[ln]
            if kind == "==0" and L.const == 0:
                return True
            if kind == "!=0" and L.const == 0:
                return False
            if kind == "<=0":
                # k*len + c <= 0
                if k == 1 and L.const == 0:  # len <= 0
                    return True
                if k == -1 and L.const == 1:  # -len + 1 <= 0  => len >= 1
                    return False
    return None
