"""C18 -- SLC addresses select the right file, element and bit; data round-trips."""
from __future__ import annotations

import ast
import re

from ..astutil import attr_path, call_name, walk, src, ancestors
from ..consteval import UNKNOWN, ClassRef, Instance
from ..astutil import clone as _clone
from ..framework import rule
from ..guards import branch_outcome
from ..linexpr import Lin, atom_name, cmp_norm, lin
from .common import witness_instance, CD, SLC, ckey

P = "C18"
PCCC = "pycomm3.cip.pccc"
EXPLANATION = (
    "Static rules D18.1-D18.13 (DESIGN.md section 5, C18): integer-typed address arithmetic of the binary-file bit form in linear "
    "normal form (element = n // 16, bit = n % 16; true division is a distinct float atom); regex AST facts (re._parser) - every "
    "address pattern is applied so that the whole string must match, digit widths admit the checked ranges; every returned "
    "address record is dominated by the documented range tests of the fields it carries; file-type letters accepted by the "
    "grammar are total in the size/type/codec tables whose values equal the DF1 specification; _read_tag and _write_tag emit the "
    "same PCCC field sequence; mask+value construction and bit extraction; reply offsets derived from the connected reply layout; "
    "rejected addresses raise RequestError before anything is sent; every address record is marked bit/sub-element exactly when the address has one and reply decoding / mask construction decide bit-vs-word identically on every value such a record can hold. Decides which file/element/bit a request addresses; the "
    "controller's data table is outside."
)
ASSUMPTIONS = ["re compiles the patterns as re._parser parses them", "spec/pccc.json transcribes the DF1 manual correctly"]


def _regexes(ctx):
    """{NAME: (pattern string, flags expr source, assign node)} for module-level re.compile constants of slc_driver."""
    mod = ctx.model.module(SLC)
    out = {}
    for name, s in mod.symbols.items():
        if s.kind == "assign" and isinstance(s.node, ast.Call) and call_name(s.node) == "re.compile" and s.node.args:
            pat = ctx.folder.eval(s.node.args[0], mod)
            if isinstance(pat, str):
                out[name] = (pat, s.node)
    return out


def _group_digit_bounds(pat):
    """{group name: (min digits, max digits)} for named groups made of a digit repeat; plus literal alternatives of file_type."""
    import re._parser as sre  # noqa
    import re._constants as C  # noqa

    tree = sre.parse(pat)
    bounds, letters = {}, {}

    def visit(items):
        for op, av in items:
            if op is C.SUBPATTERN:
                gid, _, _, sub = av
                name = None
                for k, v in tree.state.groupdict.items():
                    if v == gid:
                        name = k
                if name is not None:
                    subl = list(sub)
                    if len(subl) == 1 and subl[0][0] in (C.MAX_REPEAT, C.MIN_REPEAT):
                        lo, hi, inner = subl[0][1]
                        il = list(inner)
                        if len(il) == 1 and il[0][0] is C.IN and any(x == (C.CATEGORY, C.CATEGORY_DIGIT) for x in il[0][1]):
                            bounds[name] = (lo, hi)
                    if name == "file_type":
                        letters[name] = _literals(subl)
                visit(sub)
            elif op in (C.MAX_REPEAT, C.MIN_REPEAT):
                visit(av[2])
            elif op is C.BRANCH:
                for b in av[1]:
                    visit(b)

    def _literals(subl):
        # [IO] -> IN of literals ; ST -> sequence of literals ; S -> one literal
        if len(subl) == 1 and subl[0][0] is C.IN:
            return ["".join(chr(v) for o, v in subl[0][1] if o is C.LITERAL)[i] for i in range(len([1 for o, v in subl[0][1] if o is C.LITERAL]))]
        if all(o is C.LITERAL for o, v in subl):
            return ["".join(chr(v) for o, v in subl)]
        return None

    visit(tree)
    anch_start = bool(tree.data) and tree.data[0][0] is C.AT and tree.data[0][1] in (C.AT_BEGINNING, C.AT_BEGINNING_STRING)
    anch_end = bool(tree.data) and tree.data[-1][0] is C.AT and tree.data[-1][1] in (C.AT_END, C.AT_END_STRING)
    return bounds, letters.get("file_type"), anch_start, anch_end


@rule(P, "D18.1", "T-INT", floor=2)
def d18_1(ctx):
    """Binary-file bit form: element = n // 16 and bit = n % 16, both integers."""
    fn = ctx.model.func(f"{SLC}:parse_tag")
    f = fn.node
    # locate the record built from B_RE
    branch = None
    for n in walk(f):
        if isinstance(n, ast.Assign) and isinstance(n.value, ast.Call) and (attr_path(n.value.func) or "").startswith("B_RE."):
            branch = n
    if branch is None:
        ctx.undecided(ckey(fn, "bfile"), f, "B_RE application not found")
        return
    tvar = atom_name(branch.targets[0])
    after = [s for s in f.body[f.body.index(branch) + 1:]]
    rec, ifnode = None, None
    for s in after:
        if isinstance(s, ast.If):
            for r in walk(s):
                if isinstance(r, ast.Return) and isinstance(r.value, ast.Dict):
                    rec, ifnode = r, s
            break
    if rec is None:
        ctx.undecided(ckey(fn, "bfile"), f, "record of the B-file form not found")
        return
    # local substitutions
    subst = {}
    for s in ifnode.body:
        if isinstance(s, ast.Assign) and isinstance(s.targets[0], ast.Name):
            name = s.targets[0].id
            v = s.value
            if isinstance(v, ast.Call) and call_name(v) == "int" and isinstance(v.args[0], ast.Call) and attr_path(v.args[0].func) == f"{tvar}.group":
                subst[name] = Lin(0, {"n": 1})
            else:
                L = lin(v, subst=subst)
                if L is not None:
                    subst[name] = L
    vals = {ctx.folder.eval(k, fn.module): v for k, v in zip(rec.value.keys, rec.value.values) if k is not None}
    sp = ctx.spec("pccc")["binary_bit_form"]
    for field, want, text in (("element_number", Lin(0, {"(n)//16": 1}), sp["element"]), ("sub_element", Lin(0, {"(n)%16": 1}), sp["bit"])):
        e = vals.get(field)
        L = lin(e, subst=subst) if e is not None else None
        ctx.check(L == want, ckey(fn, f"bfile:{field}"), e or rec, f"{field} = {text}", f"B-file bit form computes {field} as `{L}` (n = the bit number); it must be the integer {text} (true division yields a float element/bit)", got=repr(L))


@rule(P, "D18.2", "T-REGEX", floor=7)
def d18_2(ctx):
    """Every address pattern is applied so that the whole string must match."""
    fn = ctx.model.func(f"{SLC}:parse_tag")
    rx = _regexes(ctx)
    n_apps = 0
    # a pattern may be applied through a loop variable that runs over a tuple of patterns (`for r in (ST_RE, A_RE): r.search(tag)`)
    alias = {}
    for lp in walk(fn.node):
        if isinstance(lp, ast.For) and isinstance(lp.target, ast.Name) and isinstance(lp.iter, (ast.Tuple, ast.List)) and lp.iter.elts and all(isinstance(x, ast.Name) and x.id in rx for x in lp.iter.elts):
            alias[lp.target.id] = [x.id for x in lp.iter.elts]
    used = set()
    for n in walk(fn.node):
        if isinstance(n, ast.Call) and isinstance(n.func, ast.Attribute) and isinstance(n.func.value, ast.Name) and (n.func.value.id in rx or n.func.value.id in alias) and n.func.attr in ("search", "match", "fullmatch"):
            for name in alias.get(n.func.value.id, [n.func.value.id]):
                n_apps += 1
                used.add(name)
                pat, node = rx[name]
                _, _, a0, a1 = _group_digit_bounds(pat)
                how = n.func.attr
                whole = how == "fullmatch" or (how == "match" and a1) or (how == "search" and a0 and a1)
                ctx.check(whole, ckey(fn, f"apply:{name}"), n, f"{name}.{how}: the whole address must match", f"{name}.{how}(tag) accepts addresses with extra leading/trailing characters (e.g. a 4-digit element is read as its first 3 digits): the pattern is not anchored at both ends")
    if n_apps < 7:
        ctx.undecided(ckey(fn, "apply"), fn.node, f"only {n_apps} pattern applications found")
    ctx.check(used == set(rx), ckey(fn, "all-patterns-used"), fn.node, "every address pattern is tried", f"patterns never applied: {sorted(set(rx) - used)}")


RANGES = {"file_number": "file_number", "element_number": "element", "sub_element": "bit"}


def _range_conjuncts(ctx, tests, tvar, module):
    """{group: (lo, hi)} from conjuncts `lo <= int(t.group(g)) <= hi` / `lo <= int(name) <= hi` in the given tests."""
    out = {}
    for t in tests:
        parts = t.values if isinstance(t, ast.BoolOp) and isinstance(t.op, ast.And) else [t]
        stack = list(parts)
        while stack:
            p = stack.pop()
            if isinstance(p, ast.BoolOp) and isinstance(p.op, ast.And):
                stack.extend(p.values)
                continue
            if isinstance(p, ast.Compare) and len(p.ops) == 2 and all(isinstance(o, ast.LtE) for o in p.ops):
                lo = ctx.folder.eval(p.left, module)
                hi = ctx.folder.eval(p.comparators[1], module)
                mid = p.comparators[0]
                g = None
                if isinstance(mid, ast.Call) and call_name(mid) == "int" and isinstance(mid.args[0], ast.Call) and attr_path(mid.args[0].func) == f"{tvar}.group":
                    g = ctx.folder.eval(mid.args[0].args[0], module)
                elif isinstance(mid, ast.Call) and call_name(mid) == "int" and isinstance(mid.args[0], ast.Name):
                    g = "name:" + mid.args[0].id
                if g is not None and isinstance(lo, int) and isinstance(hi, int):
                    out[g] = (lo, hi)
    return out


@rule(P, "D18.3", "T-DOM", floor=9)
def d18_3(ctx):
    """Every returned address record is dominated by the documented range tests of the numeric fields it carries."""
    sp = ctx.spec("pccc")["ranges"]
    fn = ctx.model.func(f"{SLC}:parse_tag")
    f = fn.node
    rx = _regexes(ctx)
    n_rec = 0
    for r in walk(f):
        if not (isinstance(r, ast.Return) and isinstance(r.value, ast.Dict)):
            continue
        n_rec += 1
        # enclosing true-branch tests
        tests = []
        child = r
        for a in ancestors(r):
            if a is f:
                break
            if isinstance(a, ast.If) and child in a.body:
                tests.append(a.test)
            child = a
        # which match variable / regex?
        tvar, rname = None, None
        for v in walk(r.value):
            if isinstance(v, ast.Call) and isinstance(v.func, ast.Attribute) and v.func.attr == "group" and isinstance(v.func.value, ast.Name):
                tvar = v.func.value.id
        if tvar is None:
            ctx.violation(ckey(fn, f"record@{n_rec}"), r, "record does not use a regex match")
            continue
        binds = [n for n in walk(f) if isinstance(n, ast.Assign) and atom_name(n.targets[0]) == tvar and n.lineno < r.lineno]
        last = max(binds, key=lambda n: n.lineno) if binds else None
        rname = last.value.func.value.id if last is not None and isinstance(last.value, ast.Call) and isinstance(last.value.func, ast.Attribute) and isinstance(last.value.func.value, ast.Name) else "?"
        got = _range_conjuncts(ctx, tests, tvar, fn.module)
        fields = {ctx.folder.eval(k, fn.module): v for k, v in zip(r.value.keys, r.value.values) if k is not None}
        bounds = _group_digit_bounds(rx[rname][0])[0] if rname in rx else {}
        probs = []
        af = ctx.folder.eval(fields.get("address_field"), fn.module) if "address_field" in fields else None
        for field, rng in RANGES.items():
            if field not in fields:
                continue
            e = fields[field]
            const = ctx.folder.eval(e, fn.module)
            if isinstance(const, (int, str)) and not isinstance(const, bool):
                # fixed file numbers of S / I / O files and the constant sub-element
                continue
            uses_group = [x for x in walk(e) if isinstance(x, ast.Call) and attr_path(x.func) == f"{tvar}.group"]
            group = ctx.folder.eval(uses_group[0].args[0], fn.module) if uses_group else None
            src_name = None
            if group is None and isinstance(e, ast.Name):
                # local derived from a group (ST/A: element_number = int(t.group(..)); B: from bit_position; IO: file_number)
                for n in walk(f):
                    if isinstance(n, ast.Assign) and atom_name(n.targets[0]) == e.id and n.lineno < r.lineno:
                        g2 = [x for x in walk(n.value) if isinstance(x, ast.Call) and attr_path(x.func) == f"{tvar}.group"]
                        if isinstance(n.value, ast.IfExp) and isinstance(ctx.folder.eval(n.value.body, fn.module), (str, int)) and isinstance(ctx.folder.eval(n.value.orelse, fn.module), (str, int)):
                            consts = [ctx.folder.eval(n.value.body, fn.module), ctx.folder.eval(n.value.orelse, fn.module)]
                            lo_hi = sp[rng]
                            if all(0 <= int(c) <= lo_hi[1] for c in consts):
                                src_name = "const-choice"
                            else:
                                probs.append(f"{field}: fixed value {consts} outside 0..{lo_hi[1]}")
                                src_name = "const-choice"
                        elif g2:
                            group = ctx.folder.eval(g2[0].args[0], fn.module)
                        elif isinstance(n.value, ast.IfExp) or isinstance(ctx.folder.eval(n.value, fn.module), str):
                            src_name = "const-choice"
                        else:
                            for nm in [x.id for x in walk(n.value) if isinstance(x, ast.Name)]:
                                for n2 in walk(f):
                                    if isinstance(n2, ast.Assign) and atom_name(n2.targets[0]) == nm:
                                        g3 = [x for x in walk(n2.value) if isinstance(x, ast.Call) and attr_path(x.func) == f"{tvar}.group"]
                                        if g3:
                                            group = ctx.folder.eval(g3[0].args[0], fn.module)
            if src_name == "const-choice":
                continue
            if field == "sub_element" and rname == "CT_RE":
                continue  # timer/counter sub-elements are names looked up in PCCC_CT (KeyError-free: the regex lists them)
            if field == "sub_element" and fields.get("sub_element") is not None and group is None:
                continue
            if group is None:
                probs.append(f"{field}: cannot trace to a regex group")
                continue
            want = tuple(sp["binary_file_bit"] if (rname == "B_RE" and group == "element_number") else sp[rng])
            if field == "sub_element" and rname == "B_RE":
                continue  # derived from the bit number, judged through its guard and D18.1
            g = got.get(group) or got.get("name:" + (e.id if isinstance(e, ast.Name) else ""))
            if field == "sub_element" and af == 2:
                continue  # word form: no bit is addressed
            if g is None:
                probs.append(f"{field} (group {group}) reaches the record without a range test; documented range {list(want)}")
            elif tuple(g) != want:
                probs.append(f"{field} (group {group}) is tested against {list(g)}; documented range {list(want)}")
            if group in bounds and bounds[group][1] is not None and 10 ** bounds[group][1] - 1 < want[1]:
                probs.append(f"regex group {group} admits at most {bounds[group][1]} digits: values up to {want[1]} cannot be written")
        key = ckey(fn, f"record:{rname}:{'bit' if af == 3 else 'word'}@{n_rec}")
        if probs:
            ctx.violation(key, r, "; ".join(probs), guards={k: list(v) for k, v in got.items()})
        else:
            ctx.ok(key, r, "numeric fields are inside their documented ranges on every path to this record", guards={k: list(v) for k, v in got.items()})
    if n_rec < 9:
        ctx.undecided(ckey(fn, "records"), f, f"only {n_rec} record variants found (9 confirmed)")


@rule(P, "D18.4", "T-SPEC", floor=10)
def d18_4(ctx):
    """File-type letters accepted by the grammar are total in the tables; type codes and element sizes equal the DF1 specification."""
    sp = ctx.spec("pccc")
    rx = _regexes(ctx)
    letters = set()
    for name, (pat, node) in rx.items():
        lits = _group_digit_bounds(pat)[1]
        if lits is None:
            ctx.undecided(f"{SLC}:{name}#file_type", node, "file_type alternatives not literal")
            continue
        letters |= {x.upper() for x in lits}
    size = ctx.folder.module_value(PCCC, "PCCC_DATA_SIZE")
    typ = ctx.folder.module_value(PCCC, "PCCC_DATA_TYPE")
    codecs = ctx.folder.enum_members(ctx.model.cls(f"{PCCC}:PCCCDataTypes"))
    mod = ctx.model.module(PCCC)
    if not isinstance(size, dict) or not isinstance(typ, dict):
        ctx.undecided(f"{PCCC}:tables", mod.tree, "tables do not fold")
        return
    for L in sorted(letters):
        ok = L in size and L in typ and L.lower() in {k.lower() for k in codecs}
        ctx.check(ok, f"{PCCC}:tables#{L}", mod.symbols["PCCC_DATA_SIZE"].node, f"file type {L} has size, type code and codec", f"file type {L} is accepted by the address grammar but missing from {'PCCC_DATA_SIZE ' if L not in size else ''}{'PCCC_DATA_TYPE ' if L not in typ else ''}{'PCCCDataTypes' if L.lower() not in {k.lower() for k in codecs} else ''}")
    for L, code in sp["file_types"].items():
        if L in typ:
            ctx.check(typ[L] == bytes.fromhex(code) and typ.get(bytes.fromhex(code)) == L, f"{PCCC}:PCCC_DATA_TYPE#{L}", mod.symbols["PCCC_DATA_TYPE"].node, f"{L} = {code}", f"file type code of {L} is {typ[L]!r}; DF1 assigns {code}", got=typ[L])
    for L, n in sp["element_bytes"].items():
        if L in size:
            ctx.check(size[L] == n, f"{PCCC}:PCCC_DATA_SIZE#{L}", mod.symbols["PCCC_DATA_SIZE"].node, f"{L} elements are {n} bytes", f"element size of {L} is {size[L]!r}; DF1 specifies {n}", got=size[L])
    ct = ctx.folder.module_value(PCCC, "PCCC_CT")
    want = dict(sp["timer_counter_words"], **sp["timer_counter_bits"])
    bad = {k: (ct.get(k) if isinstance(ct, dict) else None) for k, v in want.items() if not isinstance(ct, dict) or ct.get(k) != v}
    ctx.check(not bad, f"{PCCC}:PCCC_CT", mod.symbols["PCCC_CT"].node, "timer/counter sub-element words and bits", f"timer/counter table entries differ from the specification: {bad}")
    # codec widths agree with element sizes for the fixed-width files
    for L in sorted(letters):
        v = codecs.get(L.lower())
        if isinstance(v, ClassRef) and L in size:
            w = ctx.folder.class_attr(v.ci, "size")
            if isinstance(w, int) and w > 0 and L not in ("T", "C", "R"):
                ctx.check(w == size[L], f"{PCCC}:PCCCDataTypes#{L}", mod.tree, f"{L}: codec width {w} = element size", f"{L}: codec {v.ci.name} is {w} bytes but elements are {size[L]} bytes", codec=v.ci.name)


def _request_fields(ctx, fn, module):
    for n in walk(fn):
        if isinstance(n, ast.Assign) and atom_name(n.targets[0]) == "message_request" and isinstance(n.value, ast.List):
            return [src(e).replace(" ", "").replace('"', "'") for e in n.value.elts], n
    return None, None


@rule(P, "D18.5", "T-WITNESS", floor=3)
def d18_5(ctx):
    """_read_tag and _write_tag emit the same PCCC field sequence (Execute PCCC header, CMD 0F, STS, TNS, FNC, byte size, file
    number, file type, element, sub-element) and differ only in FNC (A2 / AB) and the trailing mask + data.  Decided by folding
    both methods on witness addresses and comparing the command body byte for byte (D18.13) and `_msg_start` on a witness
    configuration; an earlier form compared the source text of the list displays and alarmed when the address fields moved
    into a shared helper."""
    from ..miniinterp import run_function

    sp = ctx.spec("pccc")
    drv = ctx.model.cls(f"{SLC}:SLCDriver")
    d18_13(ctx)
    fr = ctx.folder.eval(ast.Name(id="SLC_FNC_READ", ctx=ast.Load()), drv.module)
    fw = ctx.folder.eval(ast.Name(id="SLC_FNC_WRITE", ctx=ast.Load()), drv.module)
    cmd = ctx.folder.eval(ast.Name(id="SLC_CMD_CODE", ctx=ast.Load()), drv.module)
    good = fr == bytes.fromhex(sp["fnc"]["protected_typed_logical_read_3"]) and fw == bytes.fromhex(sp["fnc"]["protected_typed_logical_masked_write_3"]) and cmd == bytes.fromhex(sp["cmd"])
    ctx.check(good, ckey(drv.key, "fnc"), drv.methods["_read_tag"], "CMD 0F; FNC A2 read / AB masked write", f"CMD {cmd!r}, read FNC {fr!r}, write FNC {fw!r}", read=fr, write=fw)
    ms = drv.methods["_msg_start"]
    ex = sp["execute_pccc"]
    kind, res = run_function(ctx, drv.module, ms, {"self": witness_instance(drv, _cfg={"vid": b"VI", "vsn": b"VSN!"})}, deep=False)
    want = bytes.fromhex(ex["service"] + "02" + ex["path"] + f"{ex['requestor_id_length']:02x}") + b"VI" + b"VSN!"
    key = ckey(drv.key + "._msg_start")
    if kind == "unknown":
        ctx.undecided(key, ms, f"_msg_start not foldable: {res}")
    else:
        res = bytes(res) if isinstance(res, bytearray) else res
        ctx.check(kind == "return" and res == want, key, ms, "4B 02 20 67 24 01 | 07 vendor serial", f"Execute-PCCC header is {res.hex() if isinstance(res, bytes) else (kind, res)}; expected {want.hex()} (service, path size, class 0x67 instance 1, requestor id length, vendor id, serial number)")


@rule(P, "D18.6", "T-WITNESS", floor=3)
def d18_6(ctx):
    """writeable_value = mask + data: a bit write masks UINT(1 << bit) and sends the mask (true) or zeros (false) as data, so only
    that bit changes; a word write masks FFFF; the whole-word path inside a sub-element address is for timer / counter PRE and
    ACC only; get_bit = (value & (1 << idx)) != 0.  Decided by folding both helpers on witness records x values (D18.12),
    including bits 1 and 2 of an integer word (which share their number with the PRE / ACC word indices) and timer status bits."""
    d18_12(ctx)


@rule(P, "D18.7", "T-SPEC", floor=3)
def d18_7(ctx):
    """Reply offsets: status byte 58, data 61 follow from the connected reply layout; PRE/ACC at 2 x word index."""
    sp = ctx.spec("pccc")
    rep = ctx.spec("reply")["connected"]["data"]
    start = ctx.folder.module_value(SLC, "SLC_REPLY_START")
    drv = ctx.model.cls(f"{CD}:CIPDriver")
    from .C10 import _cfg_widths

    w = _cfg_widths(ctx, drv)
    vid, vsn = w.get("vid", set()), w.get("vsn", set())
    rid = 1 + (next(iter(vid)) if len(vid) == 1 else -99) + (next(iter(vsn)) if len(vsn) == 1 else -99)
    derived_status = rep + rid + 1
    derived_data = rep + rid + 4
    cm = ctx.model.module("pycomm3.const")
    ctx.check(start == derived_data == sp["reply"]["data_index"] and rid == sp["execute_pccc"]["requestor_id_length"], "pycomm3.const:SLC_REPLY_START", cm.symbols["SLC_REPLY_START"].node, f"data starts at 50 + requestor id ({rid}) + CMD/STS/TNS (4) = {derived_data}",
              f"SLC_REPLY_START is {start!r}; connected reply data (50) + requestor id ({rid}) + CMD,STS,TNS (4) = {derived_data}", got=start)
    rs = ctx.model.func(f"{SLC}:request_status")
    from ..miniinterp import run_function

    codes = ctx.folder.module_value(rs.module.name, "PCCC_ERROR_CODE")
    known = next((c_ for c_ in sorted(codes) if isinstance(c_, int) and 0 < c_ < 256), None) if isinstance(codes, dict) else None
    if derived_status != sp["reply"]["status_index"] or known is None or known == 0:
        ctx.violation(ckey(rs, "status-index"), rs.node, f"the STS byte derived from the reply layout is at {derived_status}, the specification table says {sp['reply']['status_index']}" if known is not None else "PCCC_ERROR_CODE is not a constant table")
    else:
        unknown = next(c_ for c_ in range(1, 256) if c_ not in codes)
        frame = lambda sts, around=0: bytes(derived_status - 1) + bytes([around, sts, around]) + bytes(8)  # noqa: E731
        p0 = rs.node.args.args[0].arg
        for label, data, want, role in (("STS 0", frame(0), None, "success"), ("STS 0 between non-zero neighbours", frame(0, known), None, "status-index"), (f"STS {known:#04x}", frame(known), codes[known], "status-index"),
                                        (f"an STS the table does not know ({unknown:#04x})", frame(unknown), "Unknown Status", "success"), ("a reply cut before the STS byte", bytes(derived_status), "Unknown Status", "success"), ("no reply", None, "Unknown Status", "success")):
            kind, res = run_function(ctx, rs.module, rs.node, {p0: data}, deep=False)
            key = ckey(rs, f"{role}:{label}")
            if kind == "unknown":
                ctx.undecided(key, rs.node, f"request_status not foldable on {label}: {res}")
                continue
            ctx.check((kind, res) == ("return", want), key, rs.node, f"{label} -> {want!r}", f"request_status on {label} gives {kind} {res!r}; expected {want!r} (only STS 0 at byte {derived_status} is success, anything else a text)")
    # PRE / ACC are words 1 and 2 of a timer / counter element, extracted only for T and C files: decided by folding
    # _parse_read_reply on witness records x data (D18.12) - an earlier form matched the if-ladder and alarmed on a table lookup
    d18_12(ctx)


@rule(P, "D18.8", "T-DOM", floor=2)
def d18_8(ctx):
    """parse_tag -> None => RequestError in _read_tag and _write_tag before anything is sent."""
    drv = ctx.model.cls(f"{SLC}:SLCDriver")
    for name in ("_read_tag", "_write_tag"):
        fn = drv.methods[name]
        g = ctx.cfg(fn)
        var = None
        for n in walk(fn):
            if isinstance(n, ast.Assign) and isinstance(n.value, ast.Call) and call_name(n.value) == "parse_tag":
                var = atom_name(n.targets[0])
        t = [x for x in g.nodes if x.kind == "test" and isinstance(x.ast, ast.Compare) and atom_name(x.ast.left) == var and isinstance(x.ast.ops[0], ast.Is)]
        sends = [x for x in g.nodes if x.kind == "stmt" and any(isinstance(c, ast.Call) and attr_path(c.func) == "self.send" for c in walk(x.ast))]
        good = False
        if t and sends:
            raised, cont = branch_outcome(g, t[0], True)
            good = raised == {"RequestError"} and not cont and all(g.branch_dominates(t[0], False, s) for s in sends)
        ctx.check(good, ckey(f"{drv.key}.{name}", "reject"), fn, "an unparsable address raises RequestError before any request is sent", "a rejected address (parse_tag -> None) does not raise RequestError before sending")
    pt = ctx.model.func(f"{SLC}:parse_tag")
    last = pt.node.body[-1]
    ctx.check(isinstance(last, ast.Return) and isinstance(last.value, ast.Constant) and last.value.value is None, ckey(pt, "fallthrough"), last, "addresses matching no form yield None", "parse_tag no longer returns None for addresses outside the grammar")
    # record keys read by the request builders exist in every record variant
    need = {"file_type", "file_number", "element_number", "element_count", "tag"}
    n_bad = []
    for r in walk(pt.node):
        if isinstance(r, ast.Return) and isinstance(r.value, ast.Dict):
            keys = {ctx.folder.eval(k, pt.module) for k in r.value.keys if k is not None}
            if not need <= keys:
                n_bad.append((r.lineno, sorted(need - keys)))
    ctx.check(not n_bad, ckey(pt, "record-keys"), pt.node, "every record carries file_type, file_number, element_number, element_count, tag", f"records missing keys the request builders read: {n_bad}")


# ---------------------------------------------------------------- D18.9: address records and their consumers agree
def _group_shapes(pat):
    """{group name: {"optional": bool, "digits": (lo, hi) | None, "alts": [str] | None}} from the regex AST."""
    import re._parser as sre  # noqa
    import re._constants as C  # noqa

    tree = sre.parse(pat)
    names = {gid: k for k, gid in tree.state.groupdict.items()}
    out = {}

    def lits(seq):
        seq = list(seq)
        return "".join(chr(v) for o, v in seq) if seq and all(o is C.LITERAL for o, v in seq) else None

    def visit(items, optional):
        for op, av in items:
            if op is C.SUBPATTERN:
                gid, _, _, sub = av
                subl = list(sub)
                if gid in names:
                    shape = {"optional": optional, "digits": None, "alts": None}
                    if len(subl) == 1 and subl[0][0] in (C.MAX_REPEAT, C.MIN_REPEAT):
                        lo, hi, inner = subl[0][1]
                        il = list(inner)
                        if len(il) == 1 and il[0][0] is C.IN and any(x == (C.CATEGORY, C.CATEGORY_DIGIT) for x in il[0][1]) and lo >= 1:
                            shape["digits"] = (lo, hi)
                    elif len(subl) == 1 and subl[0][0] is C.BRANCH:
                        alts = [lits(b) for b in subl[0][1][1]]
                        if all(a is not None for a in alts):
                            shape["alts"] = alts
                    elif len(subl) == 1 and subl[0][0] is C.IN and all(o is C.LITERAL for o, v in subl[0][1]):
                        shape["alts"] = [chr(v) for o, v in subl[0][1]]
                    elif lits(subl) is not None:
                        shape["alts"] = [lits(subl)]
                    out[names[gid]] = shape
                visit(sub, optional)
            elif op in (C.MAX_REPEAT, C.MIN_REPEAT):
                visit(av[2], optional or av[0] == 0)
            elif op is C.BRANCH:
                for b in av[1]:
                    visit(b, True)

    visit(tree, False)
    return out


class _Records:
    """Abstract address records returned by parse_tag: per key a finite list of sample values that covers the
    distinctions consumers can make (None / digit strings incl. "0" / integers incl. 0 / table values), or None if unknown."""

    def __init__(self, ctx, fn):
        self.ctx, self.fn, self.g = ctx, fn, ctx.cfg(fn.node)
        self.regexes = {k: _group_shapes(v[0]) for k, v in _regexes(ctx).items()}
        self.assigns = [n for n in walk(fn.node) if isinstance(n, ast.Assign) and len(n.targets) == 1 and isinstance(n.targets[0], ast.Name)]

    def reaching(self, name, at):
        """Textually last simple assignment to `name` before line `at` (parse_tag is a cascade of straight-line blocks)."""
        c = [a for a in self.assigns if a.targets[0].id == name and a.lineno < at]
        return max(c, key=lambda a: a.lineno) if c else None

    def group_guard(self, var, group, ret_node):
        """True / False when the return is dominated by the not-None / None side of a test of var.group(group); else None."""
        for t in self.g.nodes:
            if t.kind != "test" or not isinstance(t.ast, ast.Compare) or len(t.ast.ops) != 1:
                continue
            l, op, r = t.ast.left, t.ast.ops[0], t.ast.comparators[0]
            if not (self._is_group(l, var, group) and isinstance(r, ast.Constant) and r.value is None):
                continue
            pos = isinstance(op, (ast.IsNot, ast.NotEq))
            if not pos and not isinstance(op, (ast.Is, ast.Eq)):
                continue
            for br in (True, False):
                if self.g.branch_dominates(t, br, ret_node):
                    return br == pos
        return None

    @staticmethod
    def _is_group(e, var=None, group=None):
        ok = isinstance(e, ast.Call) and isinstance(e.func, ast.Attribute) and e.func.attr == "group" and isinstance(e.func.value, ast.Name) and len(e.args) == 1 and isinstance(e.args[0], ast.Constant)
        if not ok:
            return False
        return (var is None or e.func.value.id == var) and (group is None or e.args[0].value == group)

    def regex_of(self, var, at):
        a = self.reaching(var, at)
        if a is not None and isinstance(a.value, ast.Call) and isinstance(a.value.func, ast.Attribute) and isinstance(a.value.func.value, ast.Name):
            return a.value.func.value.id
        return None

    def samples(self, e, ret, depth=0):
        """(samples | None, presence) where presence in {"present", "absent", "maybe", None} tells whether a value derived from
        an optional regex group is known to exist at this return."""
        ctx, fn = self.ctx, self.fn
        line = ret.ast.lineno
        c = ctx.folder.eval(e, fn.module)
        if c is not UNKNOWN and not isinstance(c, ClassRef):
            return [c], None
        if depth > 6:
            return None, None
        if isinstance(e, ast.Name):
            a = self.reaching(e.id, line)
            return self.samples(a.value, ret, depth + 1) if a is not None else (None, None)
        if self._is_group(e):
            var, group = e.func.value.id, e.args[0].value
            shape = self.regexes.get(self.regex_of(var, line) or "", {}).get(group)
            if shape is None:
                return None, None
            guard = self.group_guard(var, group, ret)
            if guard is False:
                return [None], "absent"
            if shape["digits"]:
                vals = [s for s in ("0", "1", "7", "15", "16", "255", "4095") if shape["digits"][0] <= len(s) <= shape["digits"][1]]
            elif shape["alts"]:
                vals = list(shape["alts"])
            else:
                return None, None
            if shape["optional"] and guard is None:
                return [None] + vals, "maybe"
            return vals, "present"
        if isinstance(e, ast.Call) and isinstance(e.func, ast.Attribute) and e.func.attr in ("upper", "lower") and not e.args:
            s, p = self.samples(e.func.value, ret, depth + 1)
            if s is None or any(not isinstance(x, str) for x in s):
                return None, p
            return sorted({getattr(x, e.func.attr)() for x in s}), p
        if isinstance(e, ast.Call) and isinstance(e.func, ast.Name) and e.func.id == "int" and len(e.args) == 1:
            s, p = self.samples(e.args[0], ret, depth + 1)
            if s is None or any(not isinstance(x, (str, int)) for x in s):
                return None, p
            return [int(x) for x in s], p
        if isinstance(e, ast.Subscript):
            table = ctx.folder.eval(e.value, fn.module)
            if isinstance(table, dict) and table:
                s, p = self.samples(e.slice, ret, depth + 1)
                if s is not None and all(k in table for k in s):
                    return [table[k] for k in s], p
                return list(dict.fromkeys(table.values())), p
            return None, None
        if isinstance(e, ast.BinOp):
            k = ctx.folder.eval(e.right, fn.module)
            s, p = self.samples(e.left, ret, depth + 1)
            if s is not None and isinstance(k, int) and k and all(isinstance(x, int) for x in s):
                if isinstance(e.op, ast.Mod):
                    return sorted({0, 1, k - 1} | {x % k for x in s}), p
                if isinstance(e.op, ast.FloorDiv):
                    return sorted({x // k for x in s}), p
            return None, p
        return None, None

    def records(self):
        out = []
        for n in self.g.nodes:
            if n.kind == "stmt" and isinstance(n.ast, ast.Return) and isinstance(n.ast.value, ast.Dict):
                rec = {}
                for k, v in zip(n.ast.value.keys, n.ast.value.values):
                    key = self.ctx.folder.eval(k, self.fn.module) if k is not None else UNKNOWN
                    if isinstance(key, str):
                        rec[key] = self.samples(v, n)
                out.append((n, rec))
        return out


def _inline_locals(func, expr, depth=0):
    """Substitute locals of `func` that are assigned exactly once (plain `name = expr`) into `expr`."""
    import copy

    single = {}
    counts = {}
    for st in walk(func):
        if isinstance(st, ast.Assign) and len(st.targets) == 1 and isinstance(st.targets[0], ast.Name):
            counts[st.targets[0].id] = counts.get(st.targets[0].id, 0) + 1
            single[st.targets[0].id] = st.value
        elif isinstance(st, (ast.AugAssign, ast.AnnAssign, ast.For)) :
            for t in walk(st.target):
                if isinstance(t, ast.Name):
                    counts[t.id] = counts.get(t.id, 0) + 2
        elif isinstance(st, ast.Assign):
            for tg in st.targets:
                for t in walk(tg):
                    if isinstance(t, ast.Name):
                        counts[t.id] = counts.get(t.id, 0) + 2

    class Sub(ast.NodeTransformer):
        def __init__(self, d):
            self.d = d

        def visit_Name(self, n):
            if isinstance(n.ctx, ast.Load) and counts.get(n.id) == 1 and self.d < 6:
                return Sub(self.d + 1).visit(_clone(single[n.id]))
            return n

    return ast.fix_missing_locations(Sub(depth).visit(_clone(expr)))


def _record_decisions(ctx):
    """[(label, function, condition expr, anchor node)] - the conditions under which consumers treat a record as a bit /
    sub-element address: whatever dominates the `get_bit` extraction in _parse_read_reply, and the test choosing the single-bit
    mask in writeable_value (the whole-word exception for PRE/ACC is D18.6's truth table)."""
    out = []
    pr = ctx.model.func(f"{SLC}:_parse_read_reply")
    g = ctx.cfg(pr.node)
    for n in g.nodes:
        if n.kind == "stmt" and n.ast is not None and any(isinstance(c, ast.Call) and call_name(c) == "get_bit" for c in walk(n.ast)):
            conds = []
            for t in g.nodes:
                if t.kind == "test" and t.ast is not None:
                    for br in (True, False):
                        if g.branch_dominates(t, br, n):
                            conds.append(t.ast if br else ast.UnaryOp(op=ast.Not(), operand=t.ast))
            if conds:
                e = conds[0] if len(conds) == 1 else ast.BoolOp(op=ast.And(), values=conds)
                out.append(("read:get_bit", pr, e, n.ast))
    wv = ctx.model.func(f"{SLC}:writeable_value")
    for n in walk(wv.node):
        if isinstance(n, ast.IfExp) and isinstance(n.body, ast.Call) and attr_path(n.body.func) == "UINT.encode" and n.body.args and isinstance(n.body.args[0], ast.BinOp) and isinstance(n.body.args[0].op, (ast.Pow, ast.LShift)):
            out.append(("write:bit-mask", wv, n.test, n))
    return out


@rule(P, "D18.9", "T-REC", floor=25)
def d18_9(ctx):
    """Each address record of parse_tag is marked as bit/sub-element form exactly when the matched address carries one,
    and every consumer decides bit-vs-word the same way for every value such a record can hold."""
    import itertools

    pt = ctx.model.func(f"{SLC}:parse_tag")
    R = _Records(ctx, pt)
    recs = R.records()
    marks = {}
    for n, rec in recs:
        key = ckey(pt, f"record@{_rec_label(R, n)}")
        af = rec.get("address_field", (None, None))[0]
        if not af or len(af) != 1 or af[0] not in (2, 3):
            ctx.violation(key + "#mark", n.ast, f"record does not carry a constant address_field of 2 (word) or 3 (bit / sub-element): {af}")
            continue
        marks[n] = af[0] == 3
        se = rec.get("sub_element")
        presence = "absent" if se is None else (se[1] or ("absent" if se[0] in ([0], [None]) else "present" if se[0] is not None else None))
        if presence not in ("present", "absent"):
            ctx.undecided(key + "#mark", n.ast, f"whether this record has a sub-element is not determined by a dominating group test ({presence})")
            continue
        ctx.check((presence == "present") == marks[n], key + "#mark", n.ast, f"address_field={af[0]} with sub-element {presence}",
                  f"record is marked address_field={af[0]} although the matched address has its bit / sub-element {presence}: replies and masks for it are built for the other form", presence=presence)
    decisions = _record_decisions(ctx)
    if len(decisions) < 2:
        ctx.undecided(ckey(pt, "consumers"), pt.node, f"bit/word decisions found: {[d[0] for d in decisions]}")
    for label, fn, cond, anchor in decisions:
        e = _inline_locals(fn.node, cond)
        arg = fn.node.args.args[0].arg
        used = set()
        for x in walk(e):
            if isinstance(x, ast.Subscript) and atom_name(x.value) == arg and isinstance(x.slice, ast.Constant):
                used.add(x.slice.value)
            if isinstance(x, ast.Call) and isinstance(x.func, ast.Attribute) and x.func.attr == "get" and atom_name(x.func.value) == arg and x.args and isinstance(x.args[0], ast.Constant):
                used.add(x.args[0].value)
        for n, rec in recs:
            if n not in marks:
                continue
            key = ckey(fn, f"{label}@{_rec_label(R, n)}")
            fields = sorted(k for k in used if k in rec)
            if any(rec[k][0] is None for k in fields):
                ctx.undecided(key, anchor, f"record field values not enumerable: {[k for k in fields if rec[k][0] is None]}")
                continue
            bad = None
            n_eval = 0
            for combo in itertools.product(*[rec[k][0] for k in fields]):
                sample = dict(zip(fields, combo))
                v = ctx.folder.eval(e, fn.module, env={arg: sample})
                n_eval += 1
                if v is UNKNOWN:
                    bad = (sample, "not evaluable")
                    break
                if bool(v) != marks[n]:
                    bad = (sample, bool(v))
                    break
            if bad is not None and bad[1] == "not evaluable":
                ctx.undecided(key, anchor, f"`{src(e)}` is not evaluable on record {bad[0]}")
                continue
            ctx.check(bad is None, key, anchor, f"`{src(e)}` is {marks[n]} for all {n_eval} value combinations of this {'bit' if marks[n] else 'word'} record",
                      f"`{src(e)}` evaluates to {bad[1] if bad else None} for the {'bit / sub-element' if marks[n] else 'word'} address record {bad[0] if bad else None} "
                      f"({_rec_label(R, n)}): the {'addressed bit is not extracted / masked' if marks[n] else 'word is treated as a bit'}", sample=str(bad))


def _rec_label(R, n):
    """Stable label of a record: regex it comes from + guard side, not a line number."""
    line = n.ast.lineno
    var = None
    for a in sorted(R.assigns, key=lambda a: -a.lineno):
        if a.lineno < line and isinstance(a.value, ast.Call) and isinstance(a.value.func, ast.Attribute) and a.value.func.attr in ("fullmatch", "match", "search"):
            var = a
            break
    rx = var.value.func.value.id if var is not None and isinstance(var.value.func.value, ast.Name) else "?"
    side = ""
    if var is not None:
        gd = R.group_guard(var.targets[0].id, "sub_element", n)
        side = {True: "+sub", False: "-sub", None: ""}[gd]
    return rx + side


@rule(P, "D18.10", "T-CASE", floor=8)
def d18_10(ctx):
    """Upper- and lower-case spellings of an address give the same record.  The address patterns are case-insensitive, so for
    every record of parse_tag the fields and the tests that select the record are folded twice - every letter group bound
    to its upper-case and to its lower-case spelling (digit groups to a fixed witness, optional groups as the dominating
    group tests dictate) - and must agree (the echoed address text excepted)."""
    import copy
    import itertools

    pt = ctx.model.func(f"{SLC}:parse_tag")
    R = _Records(ctx, pt)
    rx_nodes = _regexes(ctx)
    insensitive = {name for name, (pat, node) in rx_nodes.items() if any("IGNORECASE" in src(a) or src(a).endswith("re.I") for a in list(node.args[1:]) + [k.value for k in node.keywords])}

    def witness_env(rx, ret, case):
        env = {}
        for g_, shape in R.regexes.get(rx, {}).items():
            guard = None
            for var in {a.targets[0].id for a in R.assigns if isinstance(a.value, ast.Call) and isinstance(a.value.func, ast.Attribute) and atom_name(a.value.func.value) == rx}:
                guard = R.group_guard(var, g_, ret) if guard is None else guard
            if guard is False:
                env[g_] = [None]
            elif shape["digits"]:
                env[g_] = ["1" if shape["digits"][0] <= 1 else "1" * shape["digits"][0]]
            elif shape["alts"]:
                env[g_] = [case(a) for a in shape["alts"]]
            else:
                env[g_] = [UNKNOWN]
        return env

    class Sub(ast.NodeTransformer):
        def __init__(self, w, line, depth=0):
            self.w, self.line, self.depth, self.unknown = w, line, depth, False

        def visit_Call(self, n):
            if _Records._is_group(n):
                g_ = n.args[0].value
                if g_ in self.w and self.w[g_] is not UNKNOWN:
                    return ast.copy_location(ast.Constant(self.w[g_]), n)
                self.unknown = True
                return n
            return self.generic_visit(n)

        def visit_Name(self, n):
            if isinstance(n.ctx, ast.Load) and self.depth < 6:
                a = R.reaching(n.id, self.line)
                if a is not None and not (isinstance(a.value, ast.Call) and isinstance(a.value.func, ast.Attribute) and a.value.func.attr in ("fullmatch", "match", "search")):
                    s2 = Sub(self.w, a.lineno, self.depth + 1)
                    r = s2.visit(_clone(a.value))
                    self.unknown = self.unknown or s2.unknown
                    return r
            return n

    _memo = {}

    def fold(e, w, line):
        mk = (id(e), tuple(sorted((k, repr(v)) for k, v in w.items())))
        if mk not in _memo:
            _memo[mk] = _fold(e, w, line)
        return _memo[mk]

    def _fold(e, w, line):
        s_ = Sub(w, line)
        e2 = ast.fix_missing_locations(s_.visit(_clone(e)))
        if s_.unknown:
            return UNKNOWN
        return ctx.folder.eval(e2, pt.module)

    n_checked = 0
    for n, rec in R.records():
        label = _rec_label(R, n)
        rx = label.replace("+sub", "").replace("-sub", "")
        key = ckey(pt, f"case@{label}")
        if rx not in insensitive:
            ctx.ok(key, n.ast, "pattern is case-sensitive: only one spelling reaches this record")
            continue
        up, lo = witness_env(rx, n, str.upper), witness_env(rx, n, str.lower)
        groups = sorted(up)
        diffs, folded = [], 0
        items = [(ctx.folder.eval(k, pt.module), v) for k, v in zip(n.ast.value.keys, n.ast.value.values) if k is not None]
        tests = [(f"test `{src(t.ast)[:50]}`", t.ast) for t in R.g.nodes if t.kind == "test" and t.ast is not None and any(R.g.branch_dominates(t, br, n) for br in (True, False))]
        # only the groups an expression mentions matter for it: fold each expression once per distinct binding of those groups
        for combo in itertools.islice(itertools.product(*[range(len(up[g_])) for g_ in groups]), 64):
            wu = {g_: up[g_][i] for g_, i in zip(groups, combo)}
            wl = {g_: lo[g_][i] for g_, i in zip(groups, combo)}
            if wu == wl:
                continue
            for name, e in items + tests:
                if name == "tag":
                    continue
                a, b = fold(e, wu, n.ast.lineno), fold(e, wl, n.ast.lineno)
                if a is UNKNOWN or b is UNKNOWN:
                    continue
                folded += 1
                if a != b:
                    diffs.append(f"{name}: {a!r} for {''.join(str(wu[g_]) for g_ in groups if isinstance(wu[g_], str) and wu[g_].isalpha())} but {b!r} for {''.join(str(wl[g_]) for g_ in groups if isinstance(wl[g_], str) and wl[g_].isalpha())}")
        if not folded:
            ctx.undecided(key, n.ast, "no field of this record could be folded on case witnesses")
            continue
        n_checked += 1
        ctx.check(not diffs, key, n.ast, f"{folded} field/test evaluations agree between upper- and lower-case spellings",
                  f"the record depends on the letter case of the address although {rx} is case-insensitive: {sorted(set(diffs))[:3]} - the lower-case spelling addresses a different file / element", pattern=rx)


@rule(P, "D18.11", "T-WITNESS", floor=30)
def d18_11(ctx):
    """parse_tag folded on one witness address per grammar form and spelling (sa/miniinterp.py; the constant address patterns
    are applied by Python's own regex engine): the record must name the file type, file number, element, position,
    sub-element/bit, address-field count, element count and address text that an independent reading of the address gives,
    and addresses outside the grammar or the documented ranges must give None."""
    from ..miniinterp import run_function

    pt = ctx.model.func(f"{SLC}:parse_tag")
    p = pt.node.args.args[0].arg
    ct = ctx.spec("pccc")["timer_counter_words"]
    ct_bits = ctx.folder.module_value(PCCC, "PCCC_CT")

    def rec(ft, fn_, el, sub=None, pos=None, count=1, tag=None, af=None):
        return {"file_type": ft, "file_number": fn_, "element_number": el, "sub_element": sub, "pos_number": pos, "element_count": count, "tag": tag, "address_field": af if af is not None else (3 if sub is not None else 2)}

    W = {
        "N7:0": rec("N", 7, 0, tag="N7:0"), "n7:12": rec("N", 7, 12, tag="n7:12"), "N255:255": rec("N", 255, 255, tag="N255:255"), "F8:3{4}": rec("F", 8, 3, count=4, tag="F8:3"),
        "L9:1": rec("L", 9, 1, tag="L9:1"), "B3:1/5": rec("B", 3, 1, sub=5, tag="B3:1/5"), "n7:2/15": rec("N", 7, 2, sub=15, tag="n7:2/15"), "N7:0/0": rec("N", 7, 0, sub=0, tag="N7:0/0"),
        "B3:4{2}": rec("B", 3, 4, count=2, tag="B3:4"),
        "T4:0.ACC": rec("T", 4, 0, sub=ct["ACC"], tag="T4:0.ACC"), "c5:1.pre": rec("C", 5, 1, sub=ct["PRE"], tag="c5:1.pre"),
        "T4:2.DN": rec("T", 4, 2, sub=ct_bits.get("DN") if isinstance(ct_bits, dict) else None, tag="T4:2.DN"),
        "I:1": rec("I", 1, 1, pos=0, tag="I:1", af=2), "O:0.2": rec("O", 0, 0, pos=2, tag="O:0.2", af=2), "I:1.2/5": rec("I", 1, 1, sub=5, pos=2, tag="I:1.2/5"),
        "o:3/0": rec("O", 0, 3, sub=0, pos=0, tag="o:3/0"), "i:2{3}": rec("I", 1, 2, pos=0, count=3, tag="i:2", af=2),
        "S:1": rec("S", 2, 1, tag="S:1"), "S:1/5": rec("S", 2, 1, sub=5, tag="S:1/5"), "s:2{2}": rec("S", 2, 2, count=2, tag="s:2"),
        "B3/17": rec("B", 3, 1, sub=1, tag="B3/17"), "b3/0": rec("B", 3, 0, sub=0, tag="b3/0"), "B10/4095": rec("B", 10, 255, sub=15, tag="B10/4095"), "B3/16": rec("B", 3, 1, sub=0, tag="B3/16"),
        "B3/32{2}": rec("B", 3, 2, sub=0, count=2, tag="B3/32"),
        "N0:0": None, "N256:0": None, "N7:256": None, "N7:0/16": None, "B3/4096": None, "X7:0": None, "N7:1000": None, "": None, "N7": None, "S:256": None, "I:1/16": None, "T4:0.XYZ": None, "N7:0{": None,
    }
    numeric = ("file_number", "element_number", "element_count")
    for w, want in W.items():
        kind, res = run_function(ctx, pt.module, pt.node, {p: w})
        key = ckey(pt, f"witness:{w or '<empty>'}")
        if kind == "unknown":
            ctx.undecided(key, pt.node, f"parse_tag is not foldable on `{w}`: {res}")
            continue
        if kind == "raise":
            ctx.violation(key, pt.node, f"parse_tag(`{w}`) raises {res} instead of returning {'an address record' if want else 'None'}")
            continue
        if want is None:
            ctx.check(res is None, key, pt.node, f"`{w}` is outside the grammar / ranges: None", f"parse_tag(`{w}`) accepts an address outside the documented grammar or ranges: {res!r}")
            continue
        if not isinstance(res, dict):
            ctx.violation(key, pt.node, f"parse_tag(`{w}`) returns {res!r} for a valid address")
            continue
        diffs = []
        for k, v in want.items():
            got = res.get(k)
            if k in numeric or (k in ("sub_element", "pos_number") and v is not None):
                try:
                    got_n = int(got) if got is not None else (0 if k == "pos_number" else None)
                except (TypeError, ValueError):
                    got_n = ("?", got)
                if got_n != v:
                    diffs.append(f"{k}={got!r} (expected {v})")
            elif k == "sub_element":
                if res.get("address_field") == 3 and got is not None:
                    diffs.append(f"sub_element={got!r} for an address without bit / sub-element")
            elif k == "pos_number":
                if got not in (None, 0, "0"):
                    diffs.append(f"pos_number={got!r} (expected none)")
            elif got != v:
                diffs.append(f"{k}={got!r} (expected {v!r})")
        ctx.check(not diffs, key, pt.node, f"`{w}` -> {want['file_type']}{want['file_number']}:{want['element_number']}" + (f"/{want['sub_element']}" if want["sub_element"] is not None else "") + f" x{want['element_count']}",
                  f"parse_tag(`{w}`) yields {diffs}: the request addresses another file / element / bit or count", witness=w)


def _slc_records():
    def rec(ft, fn_, el, sub=None, pos=None, count=1, tag=None, af=None):
        r = {"file_type": ft, "file_number": str(fn_), "element_number": str(el), "address_field": af if af is not None else (3 if sub is not None else 2), "element_count": count, "tag": tag or f"{ft}{fn_}:{el}"}
        if sub is not None:
            r["sub_element"] = sub
        if pos is not None:
            r["pos_number"] = str(pos)
        return r

    return rec


@rule(P, "D18.12", "T-WITNESS", floor=20)
def d18_12(ctx):
    """Reply decoding and masked-write payloads folded on witness records x data (sa/miniinterp.py): words and {count} lists,
    every bit position incl. bit 0 and bit 15, timer/counter PRE / ACC words and status bits, floats and longs; the
    mask + data of a write sets exactly the addressed bit or the whole word(s)."""
    import struct as _st

    from ..miniinterp import run_function

    rec = _slc_records()
    pr = ctx.model.func(f"{SLC}:_parse_read_reply")
    wv = ctx.model.func(f"{SLC}:writeable_value")
    ct = ctx.spec("pccc")["timer_counter_words"]
    w16 = lambda *xs: b"".join(_st.pack("<h", x) for x in xs)  # noqa: E731
    reads = [
        ("N7:0 word", rec("N", 7, 0), w16(1234), 1234), ("N7:0 negative", rec("N", 7, 0), w16(-2), -2), ("N7:0{3}", rec("N", 7, 0, count=3), w16(1, 2, 3), [1, 2, 3]),
        ("B3:1/5 set", rec("B", 3, 1, sub="5"), w16(0x20), True), ("B3:1/5 clear", rec("B", 3, 1, sub="5"), w16(~0x20), False),
        ("B3/16 bit0 set", rec("B", 3, 1, sub=0), w16(0x4001), True), ("B3/16 bit0 clear", rec("B", 3, 1, sub=0), w16(0x4000), False),
        ("N7:0/15", rec("N", 7, 0, sub="15"), w16(-32768), True), ("I:1.0/3", rec("I", 1, 1, sub="3", pos=0), w16(8), True),
        ("T4:0.PRE", rec("T", 4, 0, sub=ct["PRE"]), w16(0x2000, 100, 7), 100), ("T4:0.ACC", rec("T", 4, 0, sub=ct["ACC"]), w16(0x2000, 100, 7), 7),
        ("T4:0.DN set", rec("T", 4, 0, sub=13), w16(0x2000, 100, 7), True), ("C5:1.CU clear", rec("C", 5, 1, sub=15), w16(0x2000, 100, 7), False),
        ("N7:0/1 (a bit, not the PRE word)", rec("N", 7, 0, sub="1"), w16(0x0002, 100, 7), True), ("N7:0/2 clear (a bit, not the ACC word)", rec("N", 7, 0, sub="2"), w16(0x0002, 100, 7), False),
        ("B3:0/1 (a bit, not the PRE word)", rec("B", 3, 0, sub="1"), w16(0x0000, 100, 7), False),
        ("F8:0", rec("F", 8, 0), _st.pack("<f", 1.5), 1.5), ("L9:0", rec("L", 9, 0), _st.pack("<i", 70000), 70000), ("F8:0{2}", rec("F", 8, 0, count=2), _st.pack("<ff", 0.5, -2.0), [0.5, -2.0]),
    ]
    a_tag, a_data = [a.arg for a in pr.node.args.args][:2]
    for label, record, data, want in reads:
        kind, res = run_function(ctx, pr.module, pr.node, {a_tag: record, a_data: data})
        key = ckey(pr, f"witness:{label}")
        if kind == "unknown":
            ctx.undecided(key, pr.node, f"_parse_read_reply not foldable on {label}: {res}")
            continue
        got = res.args[1] if isinstance(res, Instance) and len(res.args) >= 2 else ("raises " + str(res) if kind == "raise" else res)
        ok = kind == "return" and got == want and type(got) is type(want)
        ctx.check(ok, key, pr.node, f"{label} -> {want!r}", f"reply decoding of {label} yields {got!r}, the data table holds {want!r}", witness=label)
    writes = [
        ("N7:0 = 5", rec("N", 7, 0), 5, b"\xff\xff" + w16(5)), ("N7:0 = -1", rec("N", 7, 0), -1, b"\xff\xff" + w16(-1)),
        ("N7:0/5 = True", rec("N", 7, 0, sub="5"), True, w16(0x20) + w16(0x20)), ("N7:0/5 = False", rec("N", 7, 0, sub="5"), False, w16(0x20) + w16(0)),
        ("B3/16 = True", rec("B", 3, 1, sub=0), True, w16(1) + w16(1)), ("N7:0/15 = True", rec("N", 7, 0, sub="15"), True, b"\x00\x80\x00\x80"),
        ("N7:0/1 = True (bit 1, not a whole-word write)", rec("N", 7, 0, sub="1"), True, w16(2) + w16(2)), ("N7:0/2 = False (bit 2, not a whole-word write)", rec("N", 7, 0, sub="2"), False, w16(4) + w16(0)),
        ("T4:0.DN = True (a status bit of a timer)", rec("T", 4, 0, sub=13), True, w16(0x2000) + w16(0x2000)), ("C5:1.CU = False", rec("C", 5, 1, sub=15), False, b"\x00\x80" + w16(0)),
        ("T4:0.PRE = 100", rec("T", 4, 0, sub=ct["PRE"]), 100, b"\xff\xff" + w16(100)), ("T4:0.ACC = 7", rec("T", 4, 0, sub=ct["ACC"]), 7, b"\xff\xff" + w16(7)),
        ("N7:0{2} = [1, 2]", rec("N", 7, 0, count=2), [1, 2], b"\xff\xff" + w16(1, 2)), ("N7:0{2} = [1, 2, 3]", rec("N", 7, 0, count=2), [1, 2, 3], b"\xff\xff" + w16(1, 2)),
        ("N7:0{3} = [1, 2]", rec("N", 7, 0, count=3), [1, 2], "RequestError"), ("F8:0 = 1.5", rec("F", 8, 0), 1.5, b"\xff\xff" + _st.pack("<f", 1.5)),
        ("L9:0 = 70000", rec("L", 9, 0), 70000, b"\xff\xff" + _st.pack("<i", 70000)), ("raw bytes", rec("N", 7, 0), b"\x01\x02\x03\x04", b"\x01\x02\x03\x04"),
        ("N7:0 = 'x'", rec("N", 7, 0), "x", "RequestError"),
    ]
    b_tag, b_val = [a.arg for a in wv.node.args.args][:2]
    for label, record, value, want in writes:
        kind, res = run_function(ctx, wv.module, wv.node, {b_tag: record, b_val: value})
        key = ckey(wv, f"witness:{label}")
        if kind == "unknown":
            ctx.undecided(key, wv.node, f"writeable_value not foldable on {label}: {res}")
            continue
        got = res if kind == "return" else str(res)
        if isinstance(got, (bytes, bytearray)):
            got = bytes(got)
        ctx.check(got == want, key, wv.node, f"{label} -> {want.hex() if isinstance(want, bytes) else want}",
                  f"masked-write payload for {label} is {got.hex() if isinstance(got, bytes) else got!r}, expected {want.hex() if isinstance(want, bytes) else want} (mask + data): another bit / word is written or a valid value is refused", witness=label)


    gb = ctx.model.func(f"{SLC}:get_bit")
    v_, i_ = [a.arg for a in gb.node.args.args][:2]
    for value, idx, want in ((0b1000, 3, True), (0b0111, 3, False), (0x8000, 15, True), (1, 0, True), (0xFFFE, 0, False), (-32768, 15, True)):
        kind, res = run_function(ctx, gb.module, gb.node, {v_: value, i_: idx})
        key = ckey(gb, f"witness:{value:#x}:{idx}")
        if kind == "unknown":
            ctx.undecided(key, gb.node, f"get_bit not foldable: {res}")
        else:
            ctx.check(kind == "return" and res is want, key, gb.node, f"bit {idx} of {value:#x} is {want}", f"get_bit({value:#x}, {idx}) gives {kind} {res!r}; expected {want}")


@rule(P, "D18.13", "T-WITNESS", floor=10)
def d18_13(ctx):
    """The typed-read / masked-write commands and their replies, folded on witness addresses with the transport replaced by
    witnesses (sa/miniinterp.py): the PCCC body handed to the packet is CMD 0F, STS 00, TNS, FNC A2/AB, byte size, file number,
    file type, element, sub-element (+ mask and data for writes); a zero status byte gives the decoded value / the written
    value, any other status a falsy Tag with that status text; one address gives one Tag, several a list in order."""
    import struct as _st

    from ..miniinterp import Obj, run_function

    drv = ctx.model.cls(f"{SLC}:SLCDriver")
    sp = ctx.spec("pccc")
    types = ctx.folder.module_value(PCCC, "PCCC_DATA_TYPE")
    sizes = ctx.folder.module_value(PCCC, "PCCC_DATA_SIZE")
    start = ctx.folder.module_value(SLC, "SLC_REPLY_START")
    if not (isinstance(types, dict) and isinstance(sizes, dict) and isinstance(start, int)):
        ctx.undecided(ckey(drv.key, "pccc-witness"), drv.node, "PCCC tables / reply offset not foldable")
        return
    MS = b"<msg-start>"

    def make_hook(sent, reply):
        def hook(call, env, it):
            path = attr_path(call.func) or ""
            if path == "self._msg_start":
                return MS
            if call_name(call) == "next":
                return 7
            if path.endswith(".add") and isinstance(call.func, ast.Attribute) and not path.startswith("self."):
                sent.append(it.ev(call.args[0], env))
                return None
            if path == "self.send":
                sent.append("<send>")
                return Obj(raw=reply)
            return UNKNOWN

        return hook

    def reply(status, data=b""):
        return bytes(58) + bytes([status]) + bytes(start - 59) + data

    def body(fnc, ft, fno, el, sub, n):
        return MS + b"\x0f\x00" + _st.pack("<H", 7) + fnc + bytes([sizes[ft] * n, fno]) + types[ft] + bytes([el, sub])

    rd, wr = drv.methods["_read_tag"], drv.methods["_write_tag"]
    cases = [("N7:3", "N", 7, 3, 0, 1, _st.pack("<h", 55), 55), ("F8:1{2}", "F", 8, 1, 0, 2, _st.pack("<ff", 1.5, 2.5), [1.5, 2.5]), ("o:2.3", "O", 0, 2, 3, 1, _st.pack("<h", 9), 9), ("B3/17", "B", 3, 1, 0, 1, _st.pack("<h", 2), True), ("L9:3/5", "L", 9, 3, 0, 1, _st.pack("<i", 0x20), True), ("l9:3/0", "L", 9, 3, 0, 1, _st.pack("<i", 0x20), False),
             ("L9:2", "L", 9, 2, 0, 1, _st.pack("<i", -70000), -70000), ("N7:3/15", "N", 7, 3, 0, 1, _st.pack("<H", 0x8000), True)]
    for addr, ft, fno, el, sub, n, data, want in cases:
        for status in (0, 0x10):
            sent = []
            kind, res = run_function(ctx, drv.module, rd, {"self": witness_instance(drv, _sequence=Obj()), rd.args.args[1].arg: addr}, call_hook=make_hook(sent, reply(status, data)), deep=False)
            key = ckey(f"{drv.key}._read_tag", f"witness:{addr}/status{status:02x}")
            if kind == "unknown":
                ctx.undecided(key, rd, f"_read_tag not foldable on {addr}: {res}")
                continue
            want_body = body(b"\xa2", ft, fno, el, sub, n)
            got_body = sent[0] if sent and isinstance(sent[0], (bytes, bytearray)) else None
            tag_args = res.args if isinstance(res, Instance) else None
            if status == 0:
                ok = kind == "return" and got_body == want_body and sent[1:] == ["<send>"] and tag_args is not None and tag_args[1] == want and type(tag_args[1]) is type(want) and (len(tag_args) < 4 or tag_args[3] is None)
            else:
                ok = kind == "return" and tag_args is not None and tag_args[1] is None and len(tag_args) >= 4 and isinstance(tag_args[3], str) and bool(tag_args[3])
            ctx.check(ok, key, rd, f"read {addr}: body {want_body[len(MS):].hex()} -> {'value ' + repr(want) if status == 0 else 'falsy Tag with the status text'}",
                      f"read {addr} with reply status {status:#04x}: command body {got_body[len(MS):].hex() if got_body else got_body} (expected {want_body[len(MS):].hex()}), result {tag_args if tag_args is not None else (kind, res)}", witness=addr)
    wcases = [("N7:3", "N", 7, 3, 0, 1, 5, b"\xff\xff" + _st.pack("<h", 5)), ("N7:3/4", "N", 7, 3, 0, 1, True, b"\x10\x00\x10\x00"), ("i:1.2/5", "I", 1, 1, 2, 1, False, b"\x20\x00\x00\x00"), ("N7:0{2}", "N", 7, 0, 0, 2, [1, 2], b"\xff\xff" + _st.pack("<hh", 1, 2))]
    for addr, ft, fno, el, sub, n, value, payload in wcases:
        for status in (0, 0x10):
            sent = []
            kind, res = run_function(ctx, drv.module, wr, {"self": witness_instance(drv, _sequence=Obj()), wr.args.args[1].arg: addr, wr.args.args[2].arg: value}, call_hook=make_hook(sent, reply(status)), deep=False)
            key = ckey(f"{drv.key}._write_tag", f"witness:{addr}/status{status:02x}")
            if kind == "unknown":
                ctx.undecided(key, wr, f"_write_tag not foldable on {addr}: {res}")
                continue
            want_body = body(b"\xab", ft, fno, el, sub, n) + payload
            got_body = sent[0] if sent and isinstance(sent[0], (bytes, bytearray)) else None
            tag_args = res.args if isinstance(res, Instance) else None
            if status == 0:
                ok = kind == "return" and got_body == want_body and sent[1:] == ["<send>"] and tag_args is not None and tag_args[1] == value and (len(tag_args) < 4 or tag_args[3] is None)
            else:
                ok = kind == "return" and tag_args is not None and tag_args[1] is None and len(tag_args) >= 4 and isinstance(tag_args[3], str) and bool(tag_args[3])
            ctx.check(ok, key, wr, f"write {addr}: body {want_body[len(MS):].hex()} -> {'Tag with the written value' if status == 0 else 'falsy Tag with the status text'}",
                      f"write {addr} with reply status {status:#04x}: command body {got_body[len(MS):].hex() if got_body else got_body} (expected {want_body[len(MS):].hex()}), result {tag_args if tag_args is not None else (kind, res)}", witness=addr)
    # one address -> one Tag, several -> list in order
    for name, inner, args in (("read", "_read_tag", ("N7:0",)), ("read", "_read_tag", ("N7:0", "N7:1", "N7:2")), ("write", "_write_tag", (("N7:0", 1),)), ("write", "_write_tag", (("N7:0", 1), ("N7:1", 2)))):
        fn = drv.methods[name]

        def hook(call, env, it, _inner=inner):
            if attr_path(call.func) == f"self.{_inner}":
                return ("tag-of",) + tuple(it.ev(a, env) for a in call.args)
            return UNKNOWN

        vararg = fn.args.vararg.arg if fn.args.vararg else None
        kind, res = run_function(ctx, drv.module, fn, {"self": witness_instance(drv), vararg: tuple(args)}, call_hook=hook, deep=False)
        key = ckey(f"{drv.key}.{name}", f"shape:{len(args)}")
        if kind == "unknown":
            ctx.undecided(key, fn, f"{name} not foldable: {res}")
            continue
        each = [("tag-of",) + (a if isinstance(a, tuple) else (a,)) for a in args]
        want = each[0] if len(args) == 1 else each
        ctx.check(kind == "return" and res == want, key, fn, f"{name} of {len(args)} address(es) returns {'the Tag' if len(args) == 1 else 'the Tags in order'}", f"{name}{args} returns {res!r} (expected {want!r}): not one result per address in request order")
