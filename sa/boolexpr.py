"""T-TT: truth-table abstraction of boolean expressions.

Formulas:  ("atom", (subject, op, const))  ("not", f)  ("and", [f...])  ("or", [f...])  ("const", bool)
Atoms are normalised comparisons: subject = attribute path without the leading
``self.``; op in {"is", "==", "in", "truthy"}; const = folded constant (or the
name of a set symbol for membership).  ``is not`` / ``!=`` / ``not in`` become
negated atoms.  Equivalence is decided by enumerating the valuations of the
union of atoms restricted to consistent ones (``x == 0`` and ``x == 6`` exclude
each other; ``x is None`` excludes ``x == c`` and ``x in S``).
"""
from __future__ import annotations

import ast
import itertools
import re
from typing import Callable, Dict, List, Optional

from .astutil import attr_path


class NotBoolean(Exception):
    pass


def subject(e) -> Optional[str]:
    p = attr_path(e)
    if p is None:
        # record fields: tag["file_type"] -> tag['file_type']
        if isinstance(e, ast.Subscript) and isinstance(e.slice, ast.Constant) and attr_path(e.value):
            return f"{attr_path(e.value)}[{e.slice.value!r}]"
        return None
    return p[5:] if p.startswith("self.") else p


def to_formula(e, fold: Callable, env: Optional[Dict[str, tuple]] = None, inline_call: Optional[Callable] = None):
    """fold(expr) -> python constant or raises/returns a sentinel; env maps local names to formulas."""
    env = env or {}
    if isinstance(e, ast.BoolOp):
        kind = "and" if isinstance(e.op, ast.And) else "or"
        return (kind, [to_formula(v, fold, env, inline_call) for v in e.values])
    if isinstance(e, ast.UnaryOp) and isinstance(e.op, ast.Not):
        return ("not", to_formula(e.operand, fold, env, inline_call))
    if isinstance(e, ast.Call) and isinstance(e.func, ast.Name) and e.func.id in ("all", "any") and len(e.args) == 1 and isinstance(e.args[0], (ast.Tuple, ast.List)):
        kind = "and" if e.func.id == "all" else "or"
        return (kind, [to_formula(v, fold, env, inline_call) for v in e.args[0].elts])
    if isinstance(e, ast.Call) and isinstance(e.func, ast.Name) and e.func.id == "bool" and len(e.args) == 1:
        return to_formula(e.args[0], fold, env, inline_call)
    if isinstance(e, ast.Call) and inline_call is not None:
        f = inline_call(e)
        if f is not None:
            return f
    if isinstance(e, ast.Name) and e.id in env:
        return env[e.id]
    if isinstance(e, ast.Constant) and isinstance(e.value, bool):
        return ("const", e.value)
    if isinstance(e, ast.Compare):
        if len(e.ops) == 1:
            return _cmp(e.left, e.ops[0], e.comparators[0], fold)
        # chained comparison a < b < c  ==  a < b and b < c
        parts = []
        left = e.left
        for op, right in zip(e.ops, e.comparators):
            parts.append(_cmp(left, op, right, fold))
            left = right
        return ("and", parts)
    s = subject(e)
    if s is not None:
        return ("atom", (s, "truthy", None))
    raise NotBoolean(ast.unparse(e))


def _cmp(left, op, right, fold):
    ls, rs = subject(left), subject(right)
    lc, rc = fold(left), fold(right)
    # orient: subject on the left, constant on the right
    if isinstance(op, (ast.In, ast.NotIn)):
        if ls is None:
            raise NotBoolean("membership without subject")
        members = rc if isinstance(rc, (set, frozenset, list, tuple)) and isinstance(right, (ast.Set, ast.List, ast.Tuple)) else None
        if members is not None and 0 < len(members) <= 8 and all(isinstance(m, (int, str, bytes)) for m in members):
            # membership in a small constant set is the disjunction of the equalities
            atom = ("or", [("atom", (ls, "==", m)) for m in sorted(members, key=repr)])
        else:
            name = attr_path(right) or ast.unparse(right)
            atom = ("atom", (ls, "in", name))
        return atom if isinstance(op, ast.In) else ("not", atom)
    if lc is not _UNK and rs is not None and rc is _UNK:
        left, right, ls, rs, lc, rc = right, left, rs, ls, rc, lc
        op = {ast.Lt: ast.Gt, ast.Gt: ast.Lt, ast.LtE: ast.GtE, ast.GtE: ast.LtE}.get(type(op), type(op))()
    if ls is None or rc is _UNK:
        raise NotBoolean(f"comparison not of the form <attr> op <const>: {ast.unparse(left)} ? {ast.unparse(right)}")
    if isinstance(op, (ast.Is, ast.IsNot)):
        atom = ("atom", (ls, "is", rc))
        return atom if isinstance(op, ast.Is) else ("not", atom)
    if isinstance(op, (ast.Eq, ast.NotEq)):
        if rc is None:
            atom = ("atom", (ls, "is", None))
        else:
            atom = ("atom", (ls, "==", rc))
        return atom if isinstance(op, ast.Eq) else ("not", atom)
    opname = {ast.Lt: "<", ast.LtE: "<=", ast.Gt: ">", ast.GtE: ">="}.get(type(op))
    if opname is None:
        raise NotBoolean("operator")
    return ("atom", (ls, opname, rc))


class _U:
    def __repr__(self):
        return "UNK"


_UNK = _U()


def make_fold(folder, module, cls=None, func=None):
    from .consteval import UNKNOWN, ClassRef, FuncRef, Instance

    def fold(e):
        if isinstance(e, (ast.Attribute, ast.Name)):
            p = attr_path(e)
            if p and (p.startswith("self.") or p.startswith("cls.") and False):
                return _UNK
        v = folder.eval(e, module, cls=cls, func=func)
        if v is UNKNOWN or isinstance(v, (ClassRef, FuncRef, Instance)):
            return _UNK
        return v

    return fold


def atoms(f, acc=None):
    acc = acc if acc is not None else []
    if f[0] == "atom":
        if f[1] not in acc:
            acc.append(f[1])
    elif f[0] == "not":
        atoms(f[1], acc)
    elif f[0] in ("and", "or"):
        for x in f[1]:
            atoms(x, acc)
    return acc


def evaluate(f, val: Dict) -> bool:
    k = f[0]
    if k == "atom":
        return val[f[1]]
    if k == "const":
        return f[1]
    if k == "not":
        return not evaluate(f[1], val)
    if k == "and":
        return all(evaluate(x, val) for x in f[1])
    if k == "or":
        return any(evaluate(x, val) for x in f[1])
    raise ValueError(k)


def consistent(val: Dict) -> bool:
    by_subj: Dict[str, list] = {}
    for (s, op, c), v in val.items():
        by_subj.setdefault(s, []).append((op, c, v))
    for s, lst in by_subj.items():
        none_true = any(op == "is" and c is None and v for op, c, v in lst)
        eq_true = [c for op, c, v in lst if op == "==" and v]
        if len(set(map(repr, eq_true))) > 1:
            return False
        if none_true and (eq_true or any(op in ("in", "<", "<=", ">", ">=") and v for op, c, v in lst)):
            return False
        # x == c true  => truthy == bool(c)
        for op, c, v in lst:
            if op == "truthy":
                if none_true and v:
                    return False
                for c2 in eq_true:
                    if bool(c2) != v:
                        return False
        # ordering atoms against equalities
        for c2 in eq_true:
            for op, c, v in lst:
                if op in ("<", "<=", ">", ">=") and isinstance(c, (int, float)) and isinstance(c2, (int, float)):
                    real = {"<": c2 < c, "<=": c2 <= c, ">": c2 > c, ">=": c2 >= c}[op]
                    if real != v:
                        return False
    return True


def equivalent(f, g):
    """Returns (True, None) or (False, counterexample valuation)."""
    al = atoms(f)
    for a in atoms(g):
        if a not in al:
            al.append(a)
    if len(al) > 16:
        raise NotBoolean("too many atoms")
    for bits in itertools.product([False, True], repeat=len(al)):
        val = dict(zip(al, bits))
        if not consistent(val):
            continue
        if evaluate(f, val) != evaluate(g, val):
            return False, {f"{s} {op} {c!r}": v for (s, op, c), v in val.items()}
    return True, None


def show(f) -> str:
    k = f[0]
    if k == "atom":
        s, op, c = f[1]
        return f"{s}" if op == "truthy" else f"{s} {op} {c!r}"
    if k == "const":
        return str(f[1])
    if k == "not":
        return f"!({show(f[1])})"
    return "(" + (" & " if k == "and" else " | ").join(show(x) for x in f[1]) + ")"


# -- spec formula parser:  "E & C & S0 & (G0 | (G6 & M))"
def parse_spec(text: str, atom_map: Dict[str, tuple]):
    toks = re.findall(r"[A-Za-z_][A-Za-z_0-9]*|[&|!()]", text)
    pos = [0]

    def peek():
        return toks[pos[0]] if pos[0] < len(toks) else None

    def eat():
        t = toks[pos[0]]
        pos[0] += 1
        return t

    def p_or():
        xs = [p_and()]
        while peek() == "|":
            eat()
            xs.append(p_and())
        return xs[0] if len(xs) == 1 else ("or", xs)

    def p_and():
        xs = [p_un()]
        while peek() == "&":
            eat()
            xs.append(p_un())
        return xs[0] if len(xs) == 1 else ("and", xs)

    def p_un():
        t = eat()
        if t == "!":
            return ("not", p_un())
        if t == "(":
            f = p_or()
            assert eat() == ")"
            return f
        return atom_map[t]

    f = p_or()
    assert pos[0] == len(toks)
    return f


def parse_spec_atom(text: str):
    """'_error is None' | 'command_status == 0' | 'service in MULTI_PACKET_SERVICES' | 'x is not None'"""
    m = re.fullmatch(r"(\w+) is not None", text)
    if m:
        return ("not", ("atom", (m.group(1), "is", None)))
    m = re.fullmatch(r"(\w+) is None", text)
    if m:
        return ("atom", (m.group(1), "is", None))
    m = re.fullmatch(r"(\w+) == (-?\d+)", text)
    if m:
        return ("atom", (m.group(1), "==", int(m.group(2))))
    m = re.fullmatch(r"(\w+) in (\w+)", text)
    if m:
        return ("atom", (m.group(1), "in", m.group(2)))
    raise ValueError(text)
