"""Rules that apply to every property in the same form (registered once per property over the files the property is
anchored in)."""
from __future__ import annotations

import ast
import json
import os

from ..framework import VERIF, rule
from ..guards import possibly_unbound_reads, undefined_names

# correlated-condition idioms of the reference tree: the read is reached only when the condition that bound the name held.
# One line of reason per entry; keyed by function and name, never by line.
ACCEPTED_CONDITIONAL_BINDINGS = {
    ("pycomm3.logger:configure_default_logger", "file_handler"): "bound and used under the same `if filename:` test",
    ("pycomm3.logix_driver:LogixDriver._parse_template_data_member_info", "instance_id"): "read only when data_type is still None, which implies the branch that bound it ran",
    ("pycomm3.logix_driver:LogixDriver._parse_template_data_member_info", "type_class"): "bound on each of the three exhaustive data_type branches (truthy / None->resolved / None->structure)",
    ("pycomm3.slc_driver:SLCDriver._get_datalog", "datalog_entry"): "bound in the loop body before the only `return` that reads it",
}


def _anchor_files():
    out = {}
    try:
        with open(os.path.join(VERIF, "properties.jsonl")) as fh:
            for line in fh:
                d = json.loads(line)
                out[d["id"]] = [f for f in d.get("anchors", {}).get("files", []) if f.endswith(".py")]
    except OSError:
        pass
    return out


def _make(prop, files):
    @rule(prop, f"D{int(prop[1:])}.U", "T-DEFUSE", floor=3)
    def definite_assignment(ctx):
        """Every local read in the functions this property is anchored in is bound on every path that reaches the read
        (a statement whose binding was removed, or moved behind a branch, leaves the function raising UnboundLocalError
        instead of doing what the property promises)."""
        n = 0
        for key, fi in sorted(ctx.model.functions.items()):
            if fi.module.relpath.replace(os.sep, "/") not in files:
                continue
            n += 1
            probs = [(name, node) for name, node in possibly_unbound_reads(ctx, fi.node) if (key, name) not in ACCEPTED_CONDITIONAL_BINDINGS]
            undef = undefined_names(ctx, fi)
            if undef:
                name, node = undef[0]
                ctx.violation(f"{key}#undefined:{name}", node, f"`{name}` is read in {fi.qualname} but is bound nowhere (no local, parameter, module-level name or builtin of that name): NameError instead of the promised behaviour",
                              names=sorted({u[0] for u in undef}))
                continue
            if probs:
                name, node = probs[0]
                ctx.violation(f"{key}#unbound:{name}", node, f"`{name}` can be read before it is bound (a path from the entry of {fi.qualname} reaches line {node.lineno} without passing a completed binding of `{name}`): "
                                                             f"UnboundLocalError / NameError instead of the promised behaviour", names=sorted({p[0] for p in probs}))
            else:
                ctx.ok(f"{key}#bound", fi.node, "every local is bound on all paths to its reads")

    return definite_assignment


def _external_stores(ctx):
    out = set()
    for mod in ctx.model.modules.values():
        for n in ast.walk(mod.tree):
            if isinstance(n, ast.Attribute) and isinstance(n.ctx, ast.Store) and not (isinstance(n.value, ast.Name) and n.value.id in ("self", "cls")):
                out.add(n.attr)
            if isinstance(n, ast.Call) and isinstance(n.func, ast.Name) and n.func.id == "setattr" and len(n.args) >= 2 and isinstance(n.args[1], ast.Constant):
                out.add(n.args[1].value)
    return out


def unwritten_self_attributes(ctx, c, ext):
    """[(attr, node)] - `self.<attr>` / `cls.<attr>` read in a method of class c while no class of its family (bases,
    subclasses, metaclasses) defines <attr> at class level, stores it on self/cls in any method, and no code stores it on
    another receiver: reading it raises AttributeError."""
    from ..consteval import ClassRef

    if any(getattr(b, "id", None) == "type" for k in c.mro() for b in k.node.bases):
        return []  # a metaclass: its `cls` is an arbitrary class
    fam = set(c.mro()) | set(ctx.model.subclasses(c))
    for k in list(c.mro()):
        for kw in k.node.keywords:
            if kw.arg == "metaclass":
                mc = ctx.folder.eval(kw.value, k.module)
                if isinstance(mc, ClassRef):
                    fam |= set(mc.ci.mro())
    defined, stores = set(), set()
    for k in fam:
        defined |= set(k.methods) | set(k.attrs)
        for n in ast.walk(k.node):
            if isinstance(n, (ast.FunctionDef, ast.AsyncFunctionDef, ast.ClassDef)):
                defined.add(n.name)
            elif isinstance(n, ast.AnnAssign) and isinstance(n.target, ast.Name):
                defined.add(n.target.id)
            elif isinstance(n, ast.Attribute) and isinstance(n.ctx, ast.Store) and isinstance(n.value, ast.Name) and n.value.id in ("self", "cls"):
                stores.add(n.attr)
    # unresolved external bases (Exception, NamedTuple, ...) may provide anything
    external_base = any(ctx.folder.eval(b, k.module) is None or not isinstance(ctx.folder.eval(b, k.module), ClassRef) for k in c.mro() for b in k.node.bases if not isinstance(b, ast.Call))
    out = []
    for name, meth in c.methods.items():
        first = meth.args.args[0].arg if meth.args.args else None
        if first not in ("self", "cls"):
            continue
        for n in ast.walk(meth):
            if isinstance(n, ast.Attribute) and isinstance(n.ctx, ast.Load) and isinstance(n.value, ast.Name) and n.value.id == first:
                a = n.attr
                if a in defined or a in stores or a in ext or (a.startswith("__") and a.endswith("__")):
                    continue
                if external_base:
                    continue
                out.append((a, n))
    return out


def _make_attr(prop, files):
    @rule(prop, f"D{int(prop[1:])}.A", "T-DEFUSE", floor=1)
    def attribute_initialisation(ctx):
        """Every attribute a method reads on self/cls is provided somewhere in the class family (class level, a method that
        stores it, or code that stores it on an instance): an initialisation that was removed leaves the read raising
        AttributeError instead of the promised behaviour."""
        ext = _external_stores(ctx)
        for key, c in sorted(ctx.model.classes.items()):
            if c.module.relpath.replace(os.sep, "/") not in files:
                continue
            probs = unwritten_self_attributes(ctx, c, ext)
            if probs:
                a, node = probs[0]
                ctx.violation(f"{key}#attr:{a}", node, f"`{ast.unparse(node)}` is read in {c.name} but nothing in its class family defines or stores `{a}` (and nothing stores it on an instance): AttributeError instead of the promised behaviour",
                              attrs=sorted({p_[0] for p_ in probs}))
            else:
                ctx.ok(f"{key}#attrs", c.node, "every attribute read on self/cls is provided by the class family")

    return attribute_initialisation


for _prop, _files in sorted(_anchor_files().items()):
    _make(_prop, set(_files))
    _make_attr(_prop, set(_files))
