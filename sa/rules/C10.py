"""C10 -- Connection lifecycle is safe under any call history and failure point."""
from __future__ import annotations

import ast
import itertools

from ..astutil import attr_path, call_name, walk, src, enclosing_func, decorators
from ..cfg import exc_name
from ..consteval import UNKNOWN, ClassRef
from ..framework import rule
from ..guards import branch_outcome
from ..linexpr import atom_name, cmp_norm
from ..wrap import WrapSpec, wrap_problems
from .C17 import construction_sites
from .common import CD, LX, SLC, ckey

P = "C10"
EXPLANATION = (
    "Static typestate rules D10.1-D10.8 (DESIGN.md section 5, C10) over the three driver classes: who-may-construct a "
    "connected request (every construction site is in a @with_forward_open method, dominated by the inline guard under the "
    "same `connected` test, derives from an already-connected request parameter, or is unreachable from unguarded public "
    "entry points in the resolved self-call graph); finite abstract execution of the guard over all 16 valuations of "
    "{already connected, extended flag, result of 1st/2nd _forward_open}; state is set only under `if response`; the four "
    "resets of close() post-dominate entry on every exit including exceptional edges and equal the constructor's initial "
    "values; close order; context manager; CommError wrapping of _send/_receive/open; Forward Open/Close message field "
    "widths vs CIP Vol.1 3-5.5. Decides the ordering/pairing/exhaustiveness conditions on all paths; the target's session "
    "and connection tables are outside."
)
ASSUMPTIONS = ["logger calls and list.append on a local list do not raise", "BaseException (KeyboardInterrupt) is outside the model", "drivers are used through their public methods"]


def _drivers(ctx):
    base = ctx.model.cls(f"{CD}:CIPDriver")
    return base, ctx.model.subclasses(base)


def _is_guarded(fn) -> bool:
    return "with_forward_open" in decorators(fn)


def _visible_methods(ctx, cls):
    out = {}
    for c in reversed(cls.mro()):
        for name, fn in c.methods.items():
            out[name] = (c, fn)
    return out


def _self_calls(fn):
    out = set()
    for n in walk(fn, skip_defs=False):
        if isinstance(n, ast.Call) and isinstance(n.func, ast.Attribute):
            v = n.func.value
            if isinstance(v, ast.Name) and v.id in ("self", "cls"):
                out.add(n.func.attr)
            elif isinstance(v, ast.Call) and call_name(v) == "super":
                out.add(("super", n.func.attr))
    return out


def _unguarded_reach(ctx, cls):
    """Methods reachable from public unguarded methods of cls without passing through a guarded method."""
    vis = _visible_methods(ctx, cls)
    start = [n for n, (c, fn) in vis.items() if not n.startswith("_") and not _is_guarded(fn)] + ["__enter__", "__exit__"]
    seen = {}
    stack = [(n, [n]) for n in start if n in vis]
    while stack:
        name, path = stack.pop()
        if name in seen:
            continue
        seen[name] = path
        c, fn = vis[name]
        for callee in _self_calls(fn):
            if isinstance(callee, tuple):
                # super().m(): next definition after c in the MRO of cls
                m = callee[1]
                mro = cls.mro()
                nxt = [k for k in mro[mro.index(c) + 1:] if m in k.methods] if c in mro else []
                if nxt and not _is_guarded(nxt[0].methods[m]):
                    key = f"super:{nxt[0].name}.{m}"
                    if key not in seen:
                        seen[key] = path + [key]
                        for cal2 in _self_calls(nxt[0].methods[m]):
                            if not isinstance(cal2, tuple) and cal2 in vis and not _is_guarded(vis[cal2][1]):
                                stack.append((cal2, path + [key, cal2]))
                continue
            if callee in vis and not _is_guarded(vis[callee][1]) and callee not in seen:
                stack.append((callee, path + [callee]))
    return seen


def _inline_guard(ctx, fn, call):
    """generic_message idiom: `if connected: with_forward_open(...)(self)` dominating a site whose class is connected iff `connected`."""
    g = ctx.cfg(fn)
    site_stmt = call
    while not isinstance(site_stmt, ast.stmt):
        site_stmt = getattr(site_stmt, "_parent")
    nodes = g.nodes_of(site_stmt)
    if not nodes:
        return False, "site unreachable"
    # class alias test
    f = call.func
    test_atom = None
    if isinstance(f, ast.Name):
        binds = [n for n in walk(fn) if isinstance(n, ast.Assign) and atom_name(n.targets[0]) == f.id]
        if binds and isinstance(binds[0].value, ast.IfExp):
            test_atom = atom_name(binds[0].value.test)
    for n in walk(fn):
        if isinstance(n, ast.If) and (test_atom is None or atom_name(n.test) == test_atom):
            for st in n.body:
                for c in walk(st):
                    if isinstance(c, ast.Call) and isinstance(c.func, ast.Call) and call_name(c.func) == "with_forward_open" and c.args and atom_name(c.args[0]) == "self":
                        gn = g.nodes_of(st)
                        tn = g.nodes_of(n)
                        if gn and tn and test_atom is not None:
                            # on the `connected` side the guard call lies between the test and the site
                            t = tn[0]
                            if g.must_pass({gn[0]}, start=[s for s, lab in t.succ if lab is True][0], sinks={nodes[0]}) is None:
                                return True, f"inline guard under `if {test_atom}` precedes the construction on the connected branch"
    return False, "no dominating inline forward-open guard under the same `connected` test"


@rule(P, "D10.1", "T-WHO", floor=22)
def d10_1(ctx):
    """No connected request is constructed on a path that has not passed a Forward Open guard."""
    base, drivers = _drivers(ctx)
    reach = {d: _unguarded_reach(ctx, d) for d in drivers}
    n_entry = 0
    for d in drivers:
        for name, fn in d.methods.items():
            if _is_guarded(fn):
                n_entry += 1
    if n_entry < 9:
        ctx.undecided(ckey(base.key, "entry-points"), base.node, f"only {n_entry} @with_forward_open entry points found (9 confirmed)")
    for fi, call, cls, how in construction_sites(ctx):
        owner = ctx.model.enclosing_class(fi.node)
        key = ckey(fi, f"{cls.name}@{how}")
        if owner is None or owner not in drivers:
            if fi.module.name.startswith("pycomm3.packets") and how == "cls":
                ctx.ok(key, call, "packet-level from_request: reachable only through the driver sites judged below")
                continue
            ctx.violation(key, call, "connected request constructed outside the driver classes (no guard can apply)")
            continue
        fn = fi.node
        if _is_guarded(fn):
            ctx.ok(key, call, "inside a @with_forward_open method")
            continue
        if how == "from_request":
            params = [a.arg for a in fn.args.args]
            req_arg = call.args[1] if len(call.args) > 1 else None
            if req_arg is not None and atom_name(req_arg) in params and atom_name(req_arg) != "self":
                ctx.ok(key, call, f"derives from the method's own request parameter `{atom_name(req_arg)}` (typestate carried by the object)")
                continue
        if how == "alias" or fn.name == "generic_message":
            ok, why = _inline_guard(ctx, fn, call)
            ctx.check(ok, key, call, why, f"connected generic request built without the Forward Open guard: {why}")
            continue
        # reachable from an unguarded public entry of any driver that sees this method?
        bad = []
        for d in drivers:
            vis = _visible_methods(ctx, d)
            if fn.name in vis and vis[fn.name][1] is fn and fn.name in reach[d]:
                bad.append((d.name, reach[d][fn.name]))
        if bad:
            ctx.violation(key, call, f"connected request reachable without a Forward Open guard via {bad[0][0]}: {' -> '.join(bad[0][1])}", path=bad[0][1])
        else:
            ctx.ok(key, call, "method is reachable only through @with_forward_open entry points")


# --------------------------------------------------------------- D10.2: abstract execution of the guard
class _Abort(Exception):
    pass


def _exec_guard(ctx, fn, val):
    """Fold `wrapped` on one valuation (C: already connected, E: extended flag, F1 / F2: results of the Forward Open attempts)
    with sa/miniinterp.py: `self._forward_open()` and the decorated function are markers.  Returns a trace dict; raises _Abort
    when the guard cannot be folded."""
    from ..consteval import UNKNOWN
    from ..miniinterp import Obj, _Raise, run_function

    wrapped = fn.node
    results = [val["F1"], val["F2"]]
    me = Obj(_target_is_connected=val["C"], _cfg={"extended forward open": val["E"], "connection_size": 4002})
    st = {"fo_calls": [], "func_called": False, "raised": None, "connected_at_call": None}

    def hook(call, env, it):
        path = attr_path(call.func) or ""
        if path == "self._forward_open":
            if len(st["fo_calls"]) >= 2:
                raise _Raise("<more than two Forward Open attempts>")
            r = results[len(st["fo_calls"])]
            st["fo_calls"].append({"extended": bool(me._cfg.get("extended forward open")), "size": me._cfg.get("connection_size") if me._cfg.get("connection_size") != 4002 else None, "result": r})
            if r == "raise":
                raise _Raise("CommError")
            if r:
                me._target_is_connected = True
            return r
        if atom_name(call.func) == "func":
            st["func_called"] = True
            st["connected_at_call"] = bool(me._target_is_connected)
            return "<result of func>"
        if path.startswith("logging.") or path.split(".")[0] in ("logger", "log"):
            return Obj()
        return UNKNOWN

    a = wrapped.args
    env = {a.args[0].arg: me}
    if a.vararg:
        env[a.vararg.arg] = ()
    if a.kwarg:
        env[a.kwarg.arg] = {}
    env["func"] = Obj(__name__="operation")
    kind, res = run_function(ctx, fn.module, wrapped, env, call_hook=hook, deep=False)
    st["final_cfg"] = dict(me._cfg)
    if kind == "unknown":
        raise _Abort(res)
    if kind == "raise":
        if res.startswith("<"):
            raise _Abort(res.strip("<>"))
        st["raised"] = res
    elif st["func_called"] and res != "<result of func>":
        st["result_dropped"] = True
    return st


@rule(P, "D10.2", "T-ABSTRACT-EXEC", floor=19)
def d10_2(ctx):
    """The guard: func runs only when connected; extended attempt first, then standard with size 500; at most two attempts; else ResponseError."""
    fn = ctx.model.func(f"{CD}:with_forward_open.wrapped")
    base = ckey(fn)
    for C, E, F1, F2 in list(itertools.product([False, True], repeat=4)) + [(False, True, False, "raise"), (False, True, "raise", False), (False, False, "raise", False)]:
        val = {"C": C, "E": E, "F1": F1, "F2": F2}
        tag = f"C={int(C)},E={int(E)},F1={F1 if isinstance(F1, str) else int(F1)},F2={F2 if isinstance(F2, str) else int(F2)}"
        try:
            st = _exec_guard(ctx, fn, val)
        except _Abort as err:
            ctx.violation(base + f"#{tag}", fn.node, f"guard not interpretable as a finite state machine: {err}")
            return
        probs = []
        calls = st["fo_calls"]
        if "raise" in (F1, F2):
            # a transport failure during an attempt propagates, and leaves the configuration in one of the two consistent states
            # (extended flag with the configured size, or standard service with size 500)
            final = (st["final_cfg"]["extended forward open"], st["final_cfg"]["connection_size"])
            if st["raised"] != "CommError":
                probs.append(f"a CommError raised by a Forward Open attempt ends as {st['raised'] or 'a normal return'}")
            if st["func_called"]:
                probs.append("func is executed although the Forward Open attempt failed with CommError")
            if final not in ((True, 4002), (False, 500)) and E:
                probs.append(f"after the failed attempt the configuration is extended={final[0]}, connection size {final[1]}: a later standard Forward Open would request a size its 9-bit field cannot carry")
            key = base + f"#{tag}"
            if probs:
                ctx.violation(key, fn.node, "; ".join(probs), attempts=calls)
            else:
                ctx.ok(key, fn.node, "a transport failure during an attempt propagates and leaves a consistent configuration", attempts=len(calls))
            continue
        success = C or any(c["result"] for c in calls)
        if st.get("result_dropped"):
            probs.append("the result of the decorated operation is not returned")
        if st["func_called"] and not success:
            probs.append("func is executed although no Forward Open succeeded")
        if st["func_called"] and not st.get("connected_at_call"):
            probs.append("func is executed while the target is not connected")
        if success and not st["func_called"]:
            probs.append("a Forward Open succeeded (or the target was connected) but func is not executed")
        if not success and st["raised"] != "ResponseError":
            probs.append(f"no Forward Open succeeded but the guard ends with {st['raised'] or 'a normal return'} instead of ResponseError")
        if not C:
            if not calls:
                probs.append("no Forward Open attempted")
            else:
                if calls[0]["extended"] != E:
                    probs.append("first attempt does not use the configured (extended) service")
                if E and not calls[0]["result"]:
                    if len(calls) < 2:
                        probs.append("extended Forward Open refused but the standard one is not attempted")
                    else:
                        if calls[1]["extended"]:
                            probs.append("second attempt is still an extended Forward Open")
                        if calls[1]["size"] != 500:
                            probs.append(f"second attempt uses connection size {calls[1]['size']!r}, not 500")
                if not E and not calls[0]["result"] and len(calls) > 1:
                    probs.append("standard Forward Open refused but attempted again")
                if calls[0]["result"] and len(calls) > 1:
                    probs.append("a second Forward Open after a successful one")
        else:
            if calls:
                probs.append("Forward Open attempted although already connected")
        key = base + f"#{tag}"
        if probs:
            ctx.violation(key, fn.node, "; ".join(probs), attempts=calls)
        else:
            ctx.ok(key, fn.node, "guard behaves as specified", attempts=len(calls), func_called=st["func_called"], raised=st["raised"])
    # the decorator returns the wrapper
    deco = ctx.model.func(f"{CD}:with_forward_open")
    rets = [r for r in deco.node.body if isinstance(r, ast.Return)]
    ctx.check(len(rets) == 1 and atom_name(rets[0].value) == "wrapped", ckey(deco, "returns-wrapper"), deco.node, "decorator returns the guard wrapper", "with_forward_open does not return its guard wrapper (guard bypassed)")


def _under_truthy(g, test_pred, node):
    for t in g.nodes:
        if t.kind == "test" and test_pred(t.ast) and g.branch_dominates(t, True, node):
            return True
    return False


@rule(P, "D10.3", "T-WITNESS", floor=5)
def d10_3(ctx):
    """Forward Open needs a session; connection / session state is set only from a valid reply; open() succeeds only after
    registration.  Decided by folding `_forward_open`, `_register_session`, `_un_register_session`, `_forward_close` and `open`
    on witness replies (D10.12, D10.13); an earlier form required the stores to sit under `if response:` and alarmed on the
    guard-clause form (`if not response: ...; return None` first)."""
    from .driver import _forward_open_rule, _session_rule

    _forward_open_rule(ctx)
    _session_rule(ctx)


RESET = {"_sock": None, "_target_is_connected": False, "_session": 0, "_connection_opened": False}


@rule(P, "D10.4", "T-WITNESS", floor=5)
def d10_4(ctx):
    """close() resets the four state fields to the constructor's initial values on every exit, whichever closing step fails;
    only CommError leaves.  Decided by folding `close` (and any helper it delegates the reset to) on every combination of
    connected / session / socket x failing step (D10.11).  An earlier form required the four assignments to be statements of
    `close` itself and alarmed when they were moved into a private method."""
    from .driver import _close_rule

    _close_rule(ctx)


@rule(P, "D10.5", "T-WITNESS", floor=3)
def d10_5(ctx):
    """close order: forward close (only if connected) -> un-register (only if a session exists) -> socket close; `_forward_close` clears
    the connected flag only for a valid reply.  Decided by folding `close` (with whatever helpers it delegates to) on every combination
    of connected / session / socket x failing step (D10.11) and `_forward_close` on a granted and a refused reply (D10.13); an earlier
    form located the three calls as statements of `close` itself and alarmed when the stages became private methods."""
    from .driver import _close_rule, _session_rule

    _close_rule(ctx)
    _session_rule(ctx)


@rule(P, "D10.6", "T-ALLPATHS", floor=3)
def d10_6(ctx):
    """Context manager: __enter__ opens and returns self; __exit__ closes on every path; a CommError from close yields False."""
    drv = ctx.model.cls(f"{CD}:CIPDriver")
    en, ex = drv.methods.get("__enter__"), drv.methods.get("__exit__")
    if en is None or ex is None:
        ctx.violation(ckey(drv.key, "context-manager"), drv.node, "__enter__/__exit__ missing")
        return
    body = [s for s in en.body if not (isinstance(s, ast.Expr) and isinstance(s.value, ast.Constant))]
    good = len(body) == 2 and isinstance(body[0], ast.Expr) and isinstance(body[0].value, ast.Call) and attr_path(body[0].value.func) == "self.open" and isinstance(body[1], ast.Return) and atom_name(body[1].value) == "self"
    ctx.check(good, ckey(drv.key + ".__enter__"), en, "__enter__ = open(); return self", "__enter__ does not open the driver and return it")
    g = ctx.cfg(ex)
    closes = [n for n in g.nodes if n.kind == "stmt" and any(isinstance(c, ast.Call) and attr_path(c.func) == "self.close" for c in walk(n.ast))]
    w = g.must_pass(set(closes)) if closes else [g.entry]
    ctx.check(bool(closes) and w is None, ckey(drv.key + ".__exit__", "closes"), ex, "close() is called on every path of __exit__", "a path through __exit__ does not call close()")
    good = False
    for h in [n for n in walk(ex) if isinstance(n, ast.ExceptHandler)]:
        if exc_name(h.type) == "CommError":
            rets = [r for r in walk(h) if isinstance(r, ast.Return)]
            good = bool(rets) and all(isinstance(r.value, ast.Constant) and r.value.value is False for r in rets)
    ctx.check(good, ckey(drv.key + ".__exit__", "commerror"), ex, "a CommError from close() is logged and __exit__ returns False", "__exit__ does not catch CommError from close() and return False")
    for d in ctx.model.subclasses(drv, strict=True):
        for nm in ("__enter__", "__exit__", "close"):
            if nm in d.methods:
                ctx.violation(ckey(d.key + "." + nm), d.methods[nm], f"{d.name} overrides {nm}: lifecycle rules of CIPDriver no longer cover it")


@rule(P, "D10.7", "T-WRAP", floor=3)
def d10_7(ctx):
    """Transport failures surface as CommError: _send, _receive and open wrap every exception."""
    drv = ctx.model.cls(f"{CD}:CIPDriver")
    spec = WrapSpec(mode="raise", allowed_raise={"CommError"}, safe_calls=lambda c: call_name(c) in ("PacketLazyFormatter",) or (attr_path(c.func) or "").endswith("__log.verbose"))
    for name in ("_send", "_receive", "open"):
        fn = drv.methods.get(name)
        if fn is None:
            ctx.undecided(ckey(drv.key + "." + name), drv.node, "anchor vanished")
            continue
        probs = wrap_problems(fn, spec)
        if probs:
            node, why = probs[0]
            ctx.violation(ckey(drv.key + "." + name), node, f"{why} ({len(probs)} uncontained statement(s))", statements=[f"{getattr(n, 'lineno', '?')}: {src(n).splitlines()[0][:70]}" for n, _ in probs[:8]])
        else:
            ctx.ok(ckey(drv.key + "." + name), fn, "every exception becomes CommError")
    # the socket calls are really inside the wrappers
    for name, callee in (("_send", "self._sock.send"), ("_receive", "self._sock.receive")):
        fn = drv.methods.get(name)
        from ..guards import in_try_with_handler

        calls = [c for c in walk(fn) if isinstance(c, ast.Call) and attr_path(c.func) == callee] if fn else []
        ctx.check(bool(calls) and all(in_try_with_handler(c, fn, {"Exception"}) is not None for c in calls), ckey(drv.key + "." + name, "socket-call"), fn or drv.node, f"{callee} is inside the catch-all try", f"{callee} is not called inside the CommError wrapper")


def _cfg_widths(ctx, drv):
    """Byte widths of the self._cfg entries: constructor literal plus every later store."""
    widths = {}
    init = drv.methods["__init__"]
    from .common import initial_cfg

    cfg0, _why = initial_cfg(ctx)  # (what the constructor leaves in _cfg, however it assembles it)
    for kk, vv in (cfg0 or {}).items():
        if isinstance(vv, bytes):
            widths.setdefault(kk, set()).add(len(vv))
    for c in ctx.model.subclasses(drv):
        for m in c.methods.values():
            for n in walk(m):
                if isinstance(n, ast.Assign) and isinstance(n.targets[0], ast.Subscript) and attr_path(n.targets[0].value) == "self._cfg" and isinstance(n.targets[0].slice, ast.Constant):
                    k = n.targets[0].slice.value
                    v = n.value
                    if isinstance(v, ast.Call) and call_name(v) == "urandom":
                        w = ctx.folder.eval(v.args[0], c.module)
                        widths.setdefault(k, set()).add(w if isinstance(w, int) else "?")
                    else:
                        vv = ctx.folder.eval(v, c.module)
                        if isinstance(vv, bytes):
                            widths.setdefault(k, set()).add(len(vv))
                        elif k in widths:
                            widths[k].add("?" if vv is UNKNOWN else f"non-bytes:{vv!r}")
    return widths


def _list_widths(ctx, drv, fn, listname, cfgw):
    """Widths of the elements of a local list literal of byte fields."""
    for n in walk(fn):
        if isinstance(n, ast.Assign) and atom_name(n.targets[0]) == listname and isinstance(n.value, (ast.List, ast.Tuple)):
            out = []
            for e in n.value.elts:
                v = ctx.folder.eval(e, drv.module)
                if isinstance(v, bytes):
                    out.append((len(v), src(e)))
                elif isinstance(e, ast.Subscript) and attr_path(e.value) == "self._cfg" and isinstance(e.slice, ast.Constant):
                    w = cfgw.get(e.slice.value, set())
                    out.append((next(iter(w)) if len(w) == 1 else f"ambiguous{sorted(map(str, w))}", f"_cfg[{e.slice.value!r}]"))
                else:
                    out.append((atom_name(e), src(e)))
            return out, n
    return None, None


@rule(P, "D10.8", "T-WITNESS", floor=6)
def d10_8(ctx):
    """Forward Open / Forward Close request data: field order and widths per CIP Vol.1 3-5.5 (priority, ticks, connection ids,
    serial / vendor / originator triple, multiplier, RPIs and network parameters twice, transport class; close: priority, ticks
    and the same triple), network parameters (point-to-point, variable size, size in 9 bits with service 0x54 / in 16 bits of a
    32-bit word with service 0x5B), path form (word count; reserved byte only in the close).  Decided by folding both methods on
    witness configurations and comparing the request data byte for byte (D10.12, D10.13); an earlier form read the widths off
    the list display and the mask expressions and alarmed when the `extended` flag was bound to a local first."""
    from .driver import _forward_open_rule, _session_rule

    drv = ctx.model.cls(f"{CD}:CIPDriver")
    fo = drv.methods["_forward_open"]
    _forward_open_rule(ctx)
    _session_rule(ctx)
    # the identifiers the request data is assembled from have the widths of their fields wherever they are stored
    cfgw = _cfg_widths(ctx, drv)
    want_w = {"cid": {4}, "csn": {2}, "vid": {2}, "vsn": {4}}
    got_w = {k: cfgw.get(k) for k in want_w}
    ctx.check(got_w == want_w, ckey(f"{CD}:CIPDriver.__init__", "identifier-widths"), drv.methods["__init__"], "connection id 4, connection serial 2, vendor id 2, originator serial 4 bytes at every store",
              f"connection identifiers are stored with widths {got_w}; the Forward Open fields are {want_w}")
    svc = (ctx.folder.eval(ast.parse("ConnectionManagerServices.forward_open", mode="eval").body, drv.module), ctx.folder.eval(ast.parse("ConnectionManagerServices.large_forward_open", mode="eval").body, drv.module))
    ctx.check(svc == (b"\x54", b"\x5b"), ckey(f"{CD}:CIPDriver._forward_open", "service"), fo, "Forward Open = 0x54, Large Forward Open = 0x5B", f"Forward Open service codes are {svc!r}; CIP Vol.1 3-5.5 has 0x54 / 0x5B")


@rule(P, "D10.9", "T-DOM", floor=1)
def d10_9(ctx):
    """The identifiers by which the target recognises this client's CIP connection (the configuration values sent in both the
    Forward Open and the Forward Close) are rewritten only while no connection can be open: every write outside the
    constructor is dominated by the not-yet-opened side of a test of the driver's opened / connected flag."""
    drv = ctx.model.cls(f"{CD}:CIPDriver")

    def cfg_keys(fn, ctx_type):
        out = set()
        for n in walk(fn):
            if isinstance(n, ast.Subscript) and isinstance(n.ctx, ctx_type) and attr_path(n.value) == "self._cfg":
                k = ctx.folder.eval(n.slice, drv.module)
                if isinstance(k, str):
                    out.add(k)
                elif isinstance(n.slice, ast.Name):
                    # a key that ranges over a constant sequence (`self._cfg[k] for k in ("csn", "vid")`, a for loop): every element
                    for b in walk(fn):
                        gens = b.generators if isinstance(b, (ast.ListComp, ast.GeneratorExp, ast.SetComp, ast.DictComp)) else [b] if isinstance(b, ast.For) else []
                        for g_ in gens:
                            if isinstance(g_.target, ast.Name) and g_.target.id == n.slice.id:
                                seq = ctx.folder.eval(g_.iter, drv.module)
                                if isinstance(seq, (list, tuple, frozenset)):
                                    out.update(x for x in seq if isinstance(x, str))
        return out

    fo, fc = drv.methods.get("_forward_open"), drv.methods.get("_forward_close")
    if fo is None or fc is None:
        ctx.undecided(ckey(drv.key, "connection-identifiers"), drv.node, "Forward Open / Forward Close builders not found")
        return
    ident = cfg_keys(fo, ast.Load) & cfg_keys(fc, ast.Load)
    n = 0
    for name, m in drv.methods.items():
        if name == "__init__":
            continue
        g = None
        for node in walk(m):
            if not (isinstance(node, ast.Subscript) and isinstance(node.ctx, ast.Store) and attr_path(node.value) == "self._cfg"):
                continue
            k = ctx.folder.eval(node.slice, drv.module)
            if k not in ident:
                continue
            n += 1
            g = g or ctx.cfg(m)
            st = node
            while not isinstance(st, ast.stmt):
                st = getattr(st, "_parent")
            nodes = g.nodes_of(st)
            ok = False
            for t in g.nodes:
                if t.kind != "test" or not nodes or t.ast is None:
                    continue
                neg, e = False, t.ast
                while isinstance(e, ast.UnaryOp) and isinstance(e.op, ast.Not):
                    neg, e = not neg, e.operand
                if attr_path(e) in ("self._connection_opened", "self._target_is_connected", "self.connected"):
                    # the write must sit on the side where the flag is false
                    if g.branch_dominates(t, neg, nodes[0]):
                        ok = True
            ctx.check(ok, ckey(f"{drv.key}.{name}", f"identifier:{k}"), st, f"`{src(st)}` happens only while the driver is not opened/connected",
                      f"`{src(st)}` can run while a connection is open (no dominating 'not opened' test): the Forward Close then names a connection the target does not know ({k} differs from the Forward Open) and the target keeps the connection after close()", key=k)
    if not ident:
        ctx.undecided(ckey(drv.key, "connection-identifiers"), drv.node, "no configuration value is shared by the Forward Open and Forward Close requests")
