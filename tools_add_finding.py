#!/usr/bin/env python3
"""Developer helper (not used by any check): append an entry to known_findings.json."""
import json, sys
prop, rule, construct, status, commit, what, demo = sys.argv[1:8]
p = '/verif/known_findings.json'
d = json.load(open(p))
prefix = f"fixed: property={prop} {commit} " if status == 'fixed' else ''
d['findings'].append({"property": prop, "rule": rule, "construct": construct, "status": status, "commit": commit, "what_fails": prefix + what, "demonstration": demo})
json.dump(d, open(p, 'w'), indent=1)
