"""Explicit-exception escape analysis over a resolved call graph.

raises(f) = exception class names that can leave f through
  * `raise X(...)` statements not enclosed by a handler that catches X,
  * the conversion-builtin catalogue (int(<non-literal>) / float / bytes.fromhex / ipaddress.* -> ValueError),
  * calls to resolved callees g (raises(g)), filtered by the enclosing handlers,
  * handlers that raise a new class (`raise L(...) from err`) or re-raise.
Implicit exceptions (KeyError/TypeError/AttributeError of arbitrary expressions) are not modelled.

Callee resolution: module functions through imports; Class(...) -> __init__ through the MRO; self.m / cls.m -> the
method seen by the receiver class and every override in its subclasses (dynamic dispatch); super().m; Class.m;
locals bound to `Class(...)` / `Class.from_request(...)`; receivers named in `receiver_table` (rule supplied union of
classes).  Unresolved calls are collected in `self.unresolved` (reported in the evidence, never silently trusted
for who-may-raise rules that need them).
"""
from __future__ import annotations

import ast
from typing import Dict, List, Optional, Set, Tuple

from .astutil import attr_path, call_name, walk
from .cfg import BUILTIN_EXC, exc_is_subclass, exc_name, handler_names
from .consteval import ClassRef, FuncRef
from .model import ClassInfo, FuncInfo

CATALOGUE = {"int": "ValueError", "float": "ValueError", "bytes.fromhex": "ValueError", "ipaddress.ip_address": "ValueError", "ipaddress.IPv4Address": "ValueError", "next": None}


class ExcFlow:
    def __init__(self, ctx, receiver_table: Optional[Dict[str, List[ClassInfo]]] = None, decorator_wrappers: Optional[Dict[str, str]] = None, interest=None):
        self.ctx = ctx
        self.model = ctx.model
        self.hier = dict(BUILTIN_EXC)
        self.hier.update(ctx.exc_hierarchy())
        self.receiver_table = receiver_table or {}
        self.decorator_wrappers = decorator_wrappers or {}
        self.memo: Dict[ast.AST, Dict[str, tuple]] = {}
        self.alt_memo: Dict[ast.AST, Dict[str, Dict[str, tuple]]] = {}
        self.active: Set[ast.AST] = set()
        self.unresolved: Set[str] = set()
        self.interest = interest  # predicate on a chain frame: which witness chains are worth keeping as alternatives

    # ------------------------------------------------------------ resolution
    def callees(self, fi: FuncInfo, call: ast.Call) -> List[FuncInfo]:
        m = self.model
        f = call.func
        owner = m.enclosing_class(fi.node)
        out: List[FuncInfo] = []

        def method_all(cls: ClassInfo, name: str):
            seen = []
            first = m.method(cls, name)
            if first is not None:
                seen.append(first)
            for sub in m.subclasses(cls, strict=True):
                o = m.own_method(sub, name)
                if o is not None and o not in seen:
                    seen.append(o)
            return seen

        if isinstance(f, ast.Name):
            v = self.ctx.folder.eval(f, fi.module)
            if isinstance(v, FuncRef) and v.node in m.func_by_node:
                return [m.func_by_node[v.node]]
            if isinstance(v, ClassRef):
                init = m.method(v.ci, "__init__")
                return [init] if init is not None else []
            if f.id == "cls" and owner is not None:
                init = m.method(owner, "__init__")
                return [init] if init is not None else []
            # local alias of a class: x = A if c else B
            for n in walk(fi.node):
                if isinstance(n, ast.Assign) and len(n.targets) == 1 and isinstance(n.targets[0], ast.Name) and n.targets[0].id == f.id and isinstance(n.value, ast.IfExp):
                    for arm in (n.value.body, n.value.orelse):
                        vv = self.ctx.folder.eval(arm, fi.module)
                        if isinstance(vv, ClassRef):
                            init = m.method(vv.ci, "__init__")
                            if init is not None:
                                out.append(init)
            if out:
                return out
            self.unresolved.add(f.id)
            return []
        if isinstance(f, ast.Attribute):
            name = f.attr
            v = f.value
            if isinstance(v, ast.Name) and v.id in ("self", "cls") and owner is not None:
                return method_all(owner, name)
            if isinstance(v, ast.Call) and call_name(v) == "super" and owner is not None:
                mro = owner.mro()
                for k in mro[1:]:
                    if name in k.methods:
                        return [m.func_by_node[k.methods[name]]]
                return []
            base = self.ctx.folder.eval(v, fi.module) if isinstance(v, (ast.Name, ast.Attribute)) else None
            if isinstance(base, ClassRef):
                return method_all(base.ci, name)
            # receiver typed by a local construction
            if isinstance(v, ast.Name):
                classes = list(self.receiver_table.get(v.id, []))
                for n in walk(fi.node):
                    if isinstance(n, ast.Assign) and len(n.targets) == 1 and isinstance(n.targets[0], ast.Name) and n.targets[0].id == v.id and isinstance(n.value, ast.Call):
                        cf = n.value.func
                        cv = self.ctx.folder.eval(cf, fi.module) if isinstance(cf, ast.Name) else None
                        if isinstance(cv, ClassRef):
                            classes.append(cv.ci)
                        if isinstance(cf, ast.Attribute) and cf.attr == "from_request":
                            cv = self.ctx.folder.eval(cf.value, fi.module)
                            if isinstance(cv, ClassRef):
                                classes.append(cv.ci)
                res = []
                for c in classes:
                    for x in method_all(c, name):
                        if x not in res:
                            res.append(x)
                if res:
                    return res
            # attribute receivers like cls.element_type.encode / self._sock.send: table by attribute path
            p = attr_path(v)
            if p and p in self.receiver_table:
                res = []
                for c in self.receiver_table[p]:
                    for x in method_all(c, name):
                        if x not in res:
                            res.append(x)
                return res
            self.unresolved.add(attr_path(f) or name)
        return []

    # -------------------------------------------------------------- handlers
    def _filter(self, exc: str, handlers_stack) -> Optional[str]:
        """Apply enclosing handlers (innermost first) to exception name exc. Returns the exception that continues (or None)."""
        cur = exc
        for handlers in handlers_stack:
            for h in handlers:
                names = handler_names(h)
                if cur == "<any>":
                    hit = any(n in ("Exception", "BaseException") for n in names)
                else:
                    hit = any(n in ("Exception", "BaseException") or exc_is_subclass(cur, n, self.hier) for n in names)
                if hit:
                    return ("HANDLED", h)
        return cur

    # ----------------------------------------------------------------- main
    def raises(self, fi: FuncInfo) -> Dict[str, tuple]:
        """{exception name: witness chain (tuple of 'file:line what')}"""
        node = fi.node
        if node in self.memo:
            return self.memo[node]
        if node in self.active:
            return {}
        self.active.add(node)
        out: Dict[str, tuple] = {}
        alts: Dict[str, Dict[str, tuple]] = {}

        def add(exc, chain):
            if exc is None:
                return
            interesting = self.interest is None or any(self.interest(fr) for fr in chain)
            if exc not in out:
                out[exc] = chain
                if interesting:
                    alts.setdefault(exc, {})[chain[-3:]] = chain
            elif interesting and chain[-3:] not in alts.setdefault(exc, {}) and len(alts[exc]) < 32:
                alts[exc][chain[-3:]] = chain

        def visit(stmts, stack, in_handler: Optional[ast.ExceptHandler]):
            for st in stmts:
                if isinstance(st, (ast.FunctionDef, ast.AsyncFunctionDef, ast.ClassDef)):
                    continue
                if isinstance(st, ast.Try):
                    visit(st.body, [st.handlers] + stack, in_handler)
                    for h in st.handlers:
                        visit(h.body, stack, h)
                    visit(st.orelse, stack, in_handler)
                    visit(st.finalbody, stack, in_handler)
                    continue
                if isinstance(st, ast.Raise):
                    if st.exc is None:
                        # re-raise of what the handler caught
                        narrowed = self._isinstance_narrowing(st, in_handler)
                        if narrowed:
                            for nm in narrowed:
                                emit(nm, stack, (self._loc(fi, st, f"re-raise of {nm}"),))
                            continue
                        if in_handler is not None:
                            for nm in handler_names(in_handler):
                                if nm not in ("Exception", "BaseException"):
                                    emit(nm, stack, (self._loc(fi, st, "re-raise"),))
                                else:
                                    emit("<any>", stack, (self._loc(fi, st, "re-raise of anything"),))
                        continue
                    emit(exc_name(st.exc) or "<unknown>", stack, (self._loc(fi, st, f"raise {exc_name(st.exc)}"),))
                    for c in [x for x in walk(st) if isinstance(x, ast.Call)]:
                        do_call(c, stack)
                    continue
                # compound statements: descend into bodies with the same handler stack
                for fld in ("body", "orelse"):
                    sub = getattr(st, fld, None)
                    if isinstance(sub, list) and sub and isinstance(sub[0], ast.stmt):
                        pass
                if isinstance(st, (ast.If, ast.For, ast.While, ast.With)):
                    for e in [getattr(st, "test", None), getattr(st, "iter", None)] + [it.context_expr for it in getattr(st, "items", [])]:
                        if e is not None:
                            for c in [x for x in walk(e) if isinstance(x, ast.Call)]:
                                do_call(c, stack)
                    visit(st.body, stack, in_handler)
                    visit(getattr(st, "orelse", []) or [], stack, in_handler)
                    continue
                for c in [x for x in walk(st) if isinstance(x, ast.Call)]:
                    do_call(c, stack)

        def emit(exc, stack, chain):
            r = self._filter(exc, stack)
            if isinstance(r, tuple):
                return
            add(r, chain)

        def do_call(call, stack):
            cn = call_name(call)
            if cn in CATALOGUE and CATALOGUE[cn] and call.args and not isinstance(call.args[0], ast.Constant):
                emit(CATALOGUE[cn], stack, (self._loc(fi, call, f"{cn}(...) may raise {CATALOGUE[cn]}"),))
            for callee in self.callees(fi, call):
                primary = self.raises(callee)
                amemo = self.alt_memo.get(callee.node, {})
                for exc in primary:
                    r = self._filter(exc, stack)
                    if isinstance(r, tuple):
                        continue
                    chains = [primary[exc]] + [c for c in amemo.get(exc, {}).values() if c is not primary[exc]]
                    for chain in chains:
                        add(r, (self._loc(fi, call, f"calls {callee.qualname}"),) + chain)
            # decorated callee: the wrapper's own raises
        visit(node.body, [], None)
        for d in getattr(node, "decorator_list", []):
            dn = attr_path(d if not isinstance(d, ast.Call) else d.func)
            if dn in self.decorator_wrappers:
                w = self.model.functions.get(self.decorator_wrappers[dn])
                if w is not None:
                    for exc, chain in self.raises(w).items():
                        add(exc, (f"decorator {dn}",) + chain)
        self.active.discard(node)
        self.memo[node] = out
        self.alt_memo[node] = alts
        return out

    def chains(self, fi: FuncInfo, exc: str):
        """All recorded witness chains (distinct origins) for `exc` leaving fi."""
        self.raises(fi)
        return list(self.alt_memo.get(fi.node, {}).get(exc, {}).values())

    def _isinstance_narrowing(self, raise_stmt, handler):
        """`if isinstance(err, X): raise` inside `except Exception as err` re-raises only X."""
        if handler is None or handler.name is None:
            return None
        p = getattr(raise_stmt, "_parent", None)
        if isinstance(p, ast.If) and raise_stmt in p.body and isinstance(p.test, ast.Call) and call_name(p.test) == "isinstance" and len(p.test.args) == 2:
            a, b = p.test.args
            if isinstance(a, ast.Name) and a.id == handler.name:
                return [exc_name(x) for x in b.elts] if isinstance(b, ast.Tuple) else [exc_name(b)]
        return None

    def _loc(self, fi, node, what):
        return f"{fi.module.relpath}:{getattr(node, 'lineno', 0)} {fi.qualname}: {what}"
