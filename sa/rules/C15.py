"""C15 -- Connection-path strings parse to the documented route."""
from __future__ import annotations

import ast

from ..astutil import attr_path, call_name, walk, src
from ..cfg import exc_name
from ..consteval import Instance, UNKNOWN
from ..framework import rule
from ..guards import branch_outcome, in_try_with_handler
from ..linexpr import atom_name, cmp_norm
from ..wrap import WrapSpec, wrap_problems
from .common import CD, DT, LX, SLC, ckey

P = "C15"
EXPLANATION = (
    "Static rules D15.1-D15.6 (DESIGN.md section 5, C15): dataflow of the separator normalisation before the split, host/port "
    "split and the TCP port range guard in parse_connection_path; the odd-segment-count test dominating the port/link pairing and "
    "the auto-slot shortcuts in parse_cip_route; T-WRAP exception discipline of both parsers (RequestError passes, everything else "
    "becomes RequestError); the port-name table against spec/ports.json (aliases equal); validation of names and links at encode "
    "time (subscript lookup -> KeyError inside the DataError wrapper, USINT range, ipaddress); the per-driver shortcut flags and "
    "their wiring into the parser. Decides the guards and tables; does not decide string-level language inclusion for every input."
)
ASSUMPTIONS = ["str.replace/split/isdigit/int behave as documented"]


@rule(P, "D15.1", "T-DATAFLOW", floor=4)
def d15_1(ctx):
    """Separators `\\` and `,` are normalised to `/` before splitting; host:port split; TCP port range guard raises RequestError."""
    fn = ctx.model.func(f"{CD}:parse_connection_path")
    f = fn.node
    pathp = f.args.args[0].arg
    pairs = set()
    norm_line = None
    for n in walk(f):
        if isinstance(n, ast.Assign) and atom_name(n.targets[0]) == pathp:
            v = n.value
            while isinstance(v, ast.Call) and isinstance(v.func, ast.Attribute) and v.func.attr == "replace" and len(v.args) == 2:
                a, b = ctx.folder.eval(v.args[0], fn.module), ctx.folder.eval(v.args[1], fn.module)
                pairs.add((a, b))
                v = v.func.value
            if atom_name(v) == pathp:
                norm_line = n.lineno
    splits = [n for n in walk(f) if isinstance(n, ast.Call) and attr_path(n.func) == f"{pathp}.split" and ctx.folder.eval(n.args[0], fn.module) == "/"]
    good = pairs == {("\\", "/"), (",", "/")} and len(splits) == 1 and norm_line is not None and norm_line < splits[0].lineno
    ctx.check(good, ckey(fn, "separators"), f, "`\\` and `,` become `/` before the split", f"separator normalisation is {sorted(pairs)} (must map both `\\` and `,` to `/` before splitting on `/`)", pairs=sorted(map(str, pairs)))
    # first element is the host, the rest the route
    tgt = None
    for n in walk(f):
        if isinstance(n, ast.Assign) and n.value in splits and isinstance(n.targets[0], ast.Tuple):
            tgt = n.targets[0]
    good = tgt is not None and len(tgt.elts) == 2 and isinstance(tgt.elts[1], ast.Starred)
    host = atom_name(tgt.elts[0]) if good else None
    route = atom_name(tgt.elts[1].value) if good else None
    ctx.check(good, ckey(fn, "host-route"), f, f"first segment is the host (`{host}`), the rest is the route (`{route}`)", "the split result is not unpacked as host, *route")
    # port split and range
    g = ctx.cfg(f)
    port_var = None
    for n in walk(f):
        if isinstance(n, ast.Assign) and isinstance(n.value, ast.Call) and call_name(n.value) == "int" and atom_name(n.targets[0]) == atom_name(n.value.args[0]):
            port_var = atom_name(n.targets[0])
    lo_ok = hi_ok = False
    facts = {}
    for t in g.nodes:
        if t.kind != "test" or port_var is None or port_var not in {x.id for x in walk(t.ast) if isinstance(x, ast.Name)}:
            continue
        raised, cont = branch_outcome(g, t, True)
        raised_f, cont_f = branch_outcome(g, t, False)
        if raised == {"RequestError"} and not cont:
            rejecting = True
        elif raised_f == {"RequestError"} and not cont_f:
            rejecting = False
        else:
            continue
        # the test touches the port only through comparisons with constants: its truth value is constant between
        # consecutive constants, so evaluating it at every constant and its two neighbours decides it for all integers
        consts = sorted({v for x in walk(t.ast) for v in [ctx.folder.eval(x, fn.module)] if isinstance(x, (ast.Constant, ast.Name, ast.Attribute)) and isinstance(v, int) and not isinstance(v, bool)})
        if not consts or any(isinstance(x, (ast.Call, ast.Subscript)) for x in walk(t.ast)):
            continue
        points = sorted({c + d for c in consts + [0, 65535] for d in (-1, 0, 1)})
        rej = {}
        for v in points:
            r = ctx.folder.eval(t.ast, fn.module, env={port_var: v})
            if r is UNKNOWN:
                rej = None
                break
            rej[v] = bool(r) == rejecting
        if rej is None:
            continue
        rejected = [v for v in points if rej[v]]
        accepted = [v for v in points if not rej[v]]
        facts = {"rejected_samples": rejected, "accepted_samples": accepted}
        lo_ok = all(rej[v] for v in points if v <= 0)
        hi_ok = all(rej[v] for v in points if v >= 65536) and all(not rej[v] for v in points if 1 <= v <= 65534)
    ctx.check(port_var is not None and lo_ok and hi_ok, ckey(fn, "port-range"), f, "ports <= 0 and > 65535 raise RequestError, 1..65534 are accepted (decided on the finite set of orderings around the constants)", f"TCP port guard rejects {facts}; ports <= 0 and > 65535 must raise RequestError", **facts)
    # host:port split, decided on representatives of the colon-count classes of the host segment (one colon, several colons,
    # empty sides): the splitting statement is folded on each witness, bound like Python binds it, and the port text goes
    # through int(); a witness is accepted when nothing on that way fails.  Accepted hosts must be colon-free.
    none_else = any(isinstance(n, ast.Assign) and atom_name(n.targets[0]) == port_var and isinstance(n.value, ast.Constant) and n.value.value is None for n in walk(f))
    split_st = [n for n in walk(f) if isinstance(n, ast.Assign) and host in {x.id for x in walk(n.value) if isinstance(x, ast.Name)} and any(isinstance(c, ast.Constant) and c.value == ":" for c in walk(n.value))
                and port_var in {x.id for t in n.targets for x in walk(t) if isinstance(x, ast.Name)}]
    verdicts, problems = {}, []
    if len(split_st) == 1 and host is not None and port_var is not None:
        st = split_st[0]
        contained = in_try_with_handler(st, f, {"ValueError"}) is not None
        for w in ("h:1", "h:1:2", "h::2", "h:1:", "1.2.3.4:44818", "1.2.3.4:4:4818"):
            v = ctx.folder.eval(st.value, fn.module, env={host: w})
            if v is UNKNOWN:
                verdicts[w] = "undecided"
                continue
            env, tgt_ = {}, st.targets[0]
            if isinstance(tgt_, ast.Tuple):
                names = [atom_name(e) for e in tgt_.elts]
                if any(isinstance(e, ast.Starred) for e in tgt_.elts) or not isinstance(v, (list, tuple)):
                    verdicts[w] = "undecided"
                    continue
                if len(v) != len(names):
                    verdicts[w] = "rejected (unpacking fails)" if contained else "unpacking fails outside any handler"
                    continue
                env = dict(zip(names, v))
            else:
                verdicts[w] = "undecided"
                continue
            h_, p_ = env.get(host), env.get(port_var)
            try:
                int(p_)
            except (ValueError, TypeError):
                verdicts[w] = "rejected (port text is not a number)"
                continue
            verdicts[w] = f"accepted host={h_!r} port={p_!r}"
            if ":" in str(h_) or str(h_) != w.split(":")[0] or w.count(":") != 1:
                problems.append(f"{w!r} -> host {h_!r}, port {p_!r}")
        if "undecided" in verdicts.values():
            ctx.undecided(ckey(fn, "port-split"), st, f"host/port split `{src(st)}` not evaluable on witnesses: {verdicts}")
        else:
            single_ok = verdicts.get("h:1", "").startswith("accepted") and verdicts.get("1.2.3.4:44818", "").startswith("accepted")
            ctx.check(not problems and single_ok and none_else, ckey(fn, "port-split"), st, "one colon splits host and port; a segment with more colons is rejected; port None when absent",
                      f"host/port split `{src(st)}` accepts malformed host segments: {problems or verdicts}" if problems or not single_ok else "the port is not None when the host segment has no colon", verdicts=verdicts)
    else:
        ctx.undecided(ckey(fn, "port-split"), f, f"host/port splitting statement not identified ({len(split_st)} candidates)")
    rets = [r for r in walk(f) if isinstance(r, ast.Return)]
    good = len(rets) == 1 and isinstance(rets[0].value, ast.Tuple) and [atom_name(x) for x in rets[0].value.elts][:2] == [host, port_var]
    calls = [c for c in walk(f) if isinstance(c, ast.Call) and call_name(c) == "parse_cip_route"]
    good = good and len(calls) == 1 and atom_name(calls[0].args[0]) == route and len(calls[0].args) == 2 and atom_name(calls[0].args[1]) == f.args.args[1].arg
    ctx.check(good, ckey(fn, "returns"), f, "returns (host, port, parse_cip_route(route, auto_slot))", "the parser does not return host, port and the route parsed with the auto_slot flag")


def _d15_2_shortcuts(ctx):
    """Shortcuts, pairing and freshness decided on witnesses: the function is folded on route lists / strings with and without
    the auto-slot flag; a result that is a module-level list would be shared between calls."""
    from ..miniinterp import run_function

    fn = ctx.model.func(f"{CD}:parse_cip_route")
    f = fn.node
    pathp, autop = f.args.args[0].arg, f.args.args[1].arg
    witnesses = [
        (([], True), [("bp", 0)]), (([], False), []), ((["3"], True), [("bp", "3")]), ((["3"], False), "RequestError"),
        ((["bp", "1"], True), [("bp", "1")]), ((["bp", "1"], False), [("bp", "1")]), ((["1", "2"], False), [(1, "2")]),
        ((["backplane", "1", "enet", "10.0.0.2"], False), [("backplane", "1"), ("enet", "10.0.0.2")]), ((["a", "b", "c"], True), "RequestError"),
        (("bp/1", False), [("bp", "1")]), (("bp\\1/2\\3", True), [("bp", "1"), (2, "3")]),
    ]
    mutable_consts = [v for v in (ctx.folder.module_value(fn.module.name, nm) for nm in list(fn.module.symbols)) if isinstance(v, (list, dict, set))]
    bad, und, shared = [], None, []
    for (path_w, auto_w), want in witnesses:
        kind, res = run_function(ctx, fn.module, f, {pathp: path_w, autop: auto_w})
        if kind == "unknown":
            und = f"({path_w!r}, {auto_w}): {res}"
            break
        if kind == "raise":
            got = res
        else:
            if any(res is m_ for m_ in mutable_consts):
                shared.append(f"({path_w!r}, {auto_w})")
            got = [(x.args[0], x.args[1]) if isinstance(x, Instance) and x.ci.name == "PortSegment" and len(x.args) >= 2 else x for x in res] if isinstance(res, (list, tuple)) else res
        if got != want:
            bad.append(f"parse_cip_route({path_w!r}, auto_slot={auto_w}) -> {got!r}, expected {want!r}")
    key = ckey(fn, "shortcuts")
    if und is not None:
        ctx.undecided(key, f, f"parse_cip_route is not foldable on witness {und}")
    else:
        ctx.check(not bad and not shared, key, f, f"no segments -> bp/0 and one segment -> bp/<segment> with auto slot only; pairs otherwise; odd counts refused ({len(witnesses)} witnesses); results are fresh lists",
                  (f"route parsing deviates: {bad[:2]}" if bad else f"the route returned for {shared} is a module-level list shared between calls: a caller that edits its route (the Micro800 driver pops the slot) changes the route of every later bare-address path"), witnesses=len(witnesses))


@rule(P, "D15.2", "T-WITNESS", floor=3)
def d15_2(ctx):
    """Routes are consecutive (port, link) pairs from the first element; an odd element count is RequestError; digits become port
    numbers; the auto-slot shortcuts apply only when asked; every call returns a fresh list.  Decided by folding
    `parse_cip_route` on witness routes (D15.11) and, for the default route of a bare address, the freshness witnesses below."""
    from .driver import _route_rule

    _route_rule(ctx)
    _d15_2_shortcuts(ctx)


def _in_shortcut(stmt):
    return isinstance(stmt, ast.Assign) and isinstance(stmt.value, (ast.IfExp, ast.List)) and not any(isinstance(x, ast.ListComp) for x in walk(stmt))


@rule(P, "D15.3", "T-WRAP", floor=2)
def d15_3(ctx):
    """Both parsers: RequestError passes through, everything else becomes RequestError."""
    spec = WrapSpec(mode="raise", allowed_raise={"RequestError"}, passthrough={"RequestError"})
    for name in ("parse_connection_path", "parse_cip_route"):
        fn = ctx.model.func(f"{CD}:{name}")
        probs = wrap_problems(fn.node, spec)
        # explicit raises inside the try must be RequestError too
        inner = [r for r in walk(fn.node) if isinstance(r, ast.Raise) and r.exc is not None and exc_name(r.exc) != "RequestError"]
        if probs or inner:
            node, why = (probs[0] if probs else (inner[0], f"raises {exc_name(inner[0].exc)}"))
            ctx.violation(ckey(fn, "wrap"), node, why, statements=[src(n).splitlines()[0][:70] for n, _ in probs[:6]])
        else:
            ctx.ok(ckey(fn, "wrap"), fn.node, "only RequestError can leave the parser")


@rule(P, "D15.4", "T-SPEC", floor=3)
def d15_4(ctx):
    """Port-name table: documented names and aliases."""
    sp = ctx.spec("ports")
    ps = ctx.model.cls(f"{DT}:PortSegment")
    tbl = ctx.folder.class_attr(ps, "port_segments")
    node = ps.attr_nodes.get("port_segments", ps.node)
    if not isinstance(tbl, dict):
        ctx.undecided(ckey(ps.key, "port_segments"), node, "table does not fold")
        return
    for k, v in sp["pinned"].items():
        ctx.check(tbl.get(k) == v, ckey(ps.key, f"port_segments[{k}]"), node, f"{k} = port {v}", f"port name {k!r} maps to {tbl.get(k)!r}; the documented port is {v}", got=tbl.get(k))
    for a, b in sp["aliases_equal"]:
        ctx.check(a in tbl and tbl.get(a) == tbl.get(b), ckey(ps.key, f"alias:{a}={b}"), node, f"{a} and {b} are the same port", f"aliases {a}/{b} map to different ports ({tbl.get(a)!r} vs {tbl.get(b)!r}): spellings of one route give different bytes")
    bad = {k: v for k, v in tbl.items() if not (isinstance(v, int) and 0 < v < 15) or k != k.lower()}
    ctx.check(not bad, ckey(ps.key, "port_segments#range"), node, "all named ports fit the 4-bit port field and are lower-case", f"port table entries outside 1..14 / not lower-case: {bad}")


@rule(P, "D15.5", "T-WITNESS", floor=3)
def d15_5(ctx):
    """Unknown port names, port numbers outside 1..14, links that are neither one byte nor an IP address are rejected when the
    route is encoded.  Decided by folding `PortSegment._encode` on witness segments (D15.10)."""
    from .driver import _segment_rule

    _segment_rule(ctx)


@rule(P, "D15.6", "T-SPEC", floor=4)
def d15_6(ctx):
    """Shortcut flags per driver and their wiring into the parser."""
    want = {f"{CD}:CIPDriver": False, f"{LX}:LogixDriver": True, f"{SLC}:SLCDriver": True}
    for k, w in want.items():
        c = ctx.model.cls(k)
        v = ctx.folder.class_attr(c, "_auto_slot_cip_path")
        ctx.check(v is w, ckey(c.key, "_auto_slot_cip_path"), c.attr_nodes.get("_auto_slot_cip_path", c.node), f"{c.name}._auto_slot_cip_path = {w}", f"{c.name}._auto_slot_cip_path is {v!r}; documented behaviour is {w}", got=v)
    # the constructor parses the path with the driver's own shortcut flag and stores host, port (default 44818) and route from the
    # parser's result: folded on witness parser results (an earlier form compared the names of the unpacked locals)
    from ..miniinterp import Obj, run_function

    drv = ctx.model.cls(f"{CD}:CIPDriver")
    init = drv.methods["__init__"]
    for label, port, want_port in (("no port in the path", None, 44818), ("port 5000 in the path", 5000, 5000), ("port 44818 in the path", 44818, 44818)):
        seen = []

        def hook(call, env, it, seen=seen, port=port):
            n = call_name(call) or ""
            if n == "parse_connection_path" and isinstance(call.func, ast.Name):
                seen.append(tuple(it.ev(a, env) for a in call.args) + tuple(sorted((k.arg, it.ev(k.value, env)) for k in call.keywords)))
                return ("10.1.2.3", port, ["<segment>"])
            if n == "cycle":
                return Obj(kind="sequence")
            return UNKNOWN

        me = Obj(_ci=drv, _auto_slot_cip_path="<flag>")
        env = {"self": me, init.args.args[1].arg: "10.1.2.3/bp/1"}
        if init.args.vararg:
            env[init.args.vararg.arg] = ()
        if init.args.kwarg:
            env[init.args.kwarg.arg] = {}
        kind, res = run_function(ctx, drv.module, init, env, call_hook=hook, deep=False)
        key = ckey(drv.key + ".__init__", f"cfg:{label}")
        if kind == "unknown":
            ctx.undecided(key, init, f"CIPDriver.__init__ not foldable ({label}): {res}")
            continue
        cfg = me.__dict__.get("_cfg") if isinstance(me.__dict__.get("_cfg"), dict) else {}
        called = seen == [("10.1.2.3/bp/1", "<flag>")] or seen == [("10.1.2.3/bp/1", ("auto_slot", "<flag>"))]
        good = kind == "return" and called and cfg.get("ip address") == "10.1.2.3" and cfg.get("port") == want_port and cfg.get("cip_path") == ["<segment>"]
        ctx.check(good, key, init, f"{label}: parser called with the path and the driver's flag; host, port {want_port} and route stored",
                  f"CIPDriver.__init__ ({label}): parser calls {seen!r}; stored host {cfg.get('ip address')!r}, port {cfg.get('port')!r}, route {cfg.get('cip_path')!r}; expected the parser's host, port {want_port} and route", witness=label)


# "yields the stated route": the route bytes are what PortSegment._encode emits for the parsed (port, link) pairs - the
# port-segment obligations of C09 (layout, pad parity) are obligations of this property too
from .C09 import d9_3 as _d9_3, d9_6 as _d9_6  # noqa: E402

rule(P, "D15.8", "T-LAYOUT", floor=3)(_d9_6)
rule(P, "D15.9", "T-PARITY", floor=5)(_d9_3)
