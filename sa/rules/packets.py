"""Packet witnesses: request / response packet classes folded as objects (sa/miniinterp.py object mode).

A witness instance of a packet class is constructed on constants - its constructor chain is folded through the MRO - and
`build_request()` (requests) or the parsed fields, `is_valid()` and `error` (responses) are compared with the frame the
EtherNet/IP and Logix data-access specifications prescribe for those constants.  Path encoding, reply-value decoding and
status-text lookup have their own rules; here they are witnesses (markers that carry their arguments), so a frame that
passes the wrong argument, drops a field or changes the field order is reported against the packet class that builds it.

The results are computed once per run and shared by the rules of the properties that rely on the respective frames.
"""
from __future__ import annotations

import ast

from ..astutil import call_name
from ..consteval import UNKNOWN, ClassRef
from ..framework import rule
from .common import ckey

PB, PE, PC, PL = "pycomm3.packets.base", "pycomm3.packets.ethernetip", "pycomm3.packets.cip", "pycomm3.packets.logix"
PATH = b"\x03<PATH>"
CID, SESSION, CONTEXT = b"\x11\x22\x33\x44", 0x01020304, b"_pycomm_"
TI_DINT = {"tag_type": "atomic", "data_type_name": "DINT", "data_type": "DINT", "instance_id": 5}
TI_DWORD = {"tag_type": "atomic", "data_type_name": "DWORD", "data_type": "DWORD", "instance_id": 6}
TI_LINT = {"tag_type": "atomic", "data_type_name": "LINT", "data_type": "LINT", "instance_id": 7}
TI_UDT = {"tag_type": "struct", "data_type_name": "udt", "data_type": {"name": "udt", "template": {"structure_handle": 0xABCD}}, "instance_id": 8}
TI_BAD = {"tag_type": "atomic", "data_type_name": "NOPE", "data_type": "NOPE", "instance_id": 9}


def _marker(args):
    return b"<" + repr(tuple(args)).encode() + b">"


def _hook(call, env, it):
    n = call_name(call) or ""
    if n == "tag_request_path":
        tag = it.ev(call.args[0], env)
        return PATH if tag == "T" else None
    if n == "request_path":
        a = [it.ev(x, env) for x in call.args] + [it.ev(k.value, env) for k in call.keywords]
        while len(a) < 3:
            a.append(b"")
        return _marker(a)
    if n == "wrap_unconnected_send":
        a = [it.ev(x, env) for x in call.args]
        return b"[" + a[0] + b"|" + a[1] + b"]"
    if n == "parse_read_reply":
        a = [it.ev(x, env) for x in call.args]
        return (("parsed",) + tuple(a), "DINT")
    if n == "get_service_status":
        return f"<status {it.ev(call.args[0], env)}>"
    if n == "get_extended_status":
        return f"<ext@{it.ev(call.args[1], env)}>"
    if isinstance(call.func, ast.Attribute) and call.func.attr == "decode" and ast.unparse(call.func.value) == "ListIdentityObject":
        return ("identity", it.ev(call.args[0], env))
    if n == "next" and call.args:
        seq = it.ev(call.args[0], env)
        return seq.pop(0) if isinstance(seq, list) and seq else UNKNOWN
    return UNKNOWN


def header(cmd, length, session=SESSION, option=0):
    return cmd + length.to_bytes(2, "little") + session.to_bytes(4, "little") + bytes(4) + CONTEXT + option.to_bytes(4, "little")


def connected_frame(msg):
    cpf = bytes(4) + b"\x00\x00" + b"\x02\x00" + b"\xa1\x00\x04\x00" + CID + b"\xb1\x00" + len(msg).to_bytes(2, "little") + msg
    return header(b"\x70\x00", len(cpf)) + cpf


def unconnected_frame(msg):
    cpf = bytes(4) + b"\x00\x00" + b"\x02\x00" + b"\x00\x00\x00\x00" + b"\xb2\x00" + len(msg).to_bytes(2, "little") + msg
    return header(b"\x6f\x00", len(cpf)) + cpf


def _mask_timeout(frame):
    # the encapsulated timeout (2 bytes after the interface handle) is the sender's choice
    return frame[:28] + b"\x00\x00" + frame[30:] if isinstance(frame, (bytes, bytearray)) and len(frame) >= 30 else frame


def connected_reply(service, status, data, enc_status=0):
    return (b"\x70\x00" + b"\x00\x00" + SESSION.to_bytes(4, "little") + enc_status.to_bytes(4, "little") + CONTEXT + bytes(4) + bytes(4) + b"\x0a\x00\x02\x00\xa1\x00\x04\x00" + CID
            + b"\xb1\x00\x00\x00" + b"\x07\x00" + bytes([service, 0, status, 0]) + data)


def unconnected_reply(service, status, data, enc_status=0):
    return (b"\x6f\x00" + b"\x00\x00" + SESSION.to_bytes(4, "little") + enc_status.to_bytes(4, "little") + CONTEXT + bytes(4) + bytes(4) + b"\x0a\x00\x02\x00\x00\x00\x00\x00"
            + b"\xb2\x00\x00\x00" + bytes([service, 0, status, 0]) + data)


class _Bench:
    def __init__(self, ctx):
        from ..miniinterp import fold_method, fold_object

        self.ctx, self.out = ctx, []
        self._fo, self._fm = fold_object, fold_method

    def cls(self, mod, name):
        return self.ctx.model.cls(f"{mod}:{name}")

    def new(self, mod, name, *args, **kwargs):
        return self._fo(self.ctx, self.cls(mod, name), list(args), kwargs, _hook)

    def call(self, obj, meth, *args, **kwargs):
        return self._fm(self.ctx, obj, meth, list(args), kwargs, _hook)

    def rec(self, group, label, ci, kind, ok=None, want="", got=""):
        """kind: 'check' (ok decides), 'unknown' (got = reason)."""
        self.out.append((group, label, ci, kind, ok, want, got))

    def expect(self, group, label, ci, res, want, show=None, norm=None):
        kind, val = res
        if kind == "unknown":
            self.rec(group, label, ci, "unknown", got=val)
            return None
        got = (kind, norm(val) if (norm and kind == "return") else val)
        w = want if isinstance(want, tuple) and len(want) == 2 and want[0] in ("return", "raise") else ("return", want)
        if norm and w[0] == "return":
            w = (w[0], norm(w[1]))
        fmt = show or (lambda v: v.hex() if isinstance(v, (bytes, bytearray)) else repr(v))
        self.rec(group, label, ci, "check", got == w, f"{w[0]} {fmt(w[1])}", f"{got[0]} {fmt(got[1])}")
        return val if kind == "return" else None

    def fields(self, group, label, ci, obj, want: dict):
        diffs = []
        for k, v in want.items():
            g = obj.__dict__.get(k, "<unset>")
            if g != v:
                diffs.append(f"{k}={g!r} (expected {v!r})")
        self.rec(group, label, ci, "check", not diffs, ", ".join(f"{k}={v!r}" for k, v in want.items())[:200], "; ".join(diffs)[:400])


def _build(b):
    RT, RTF, WT, WTF, RMW, MS = (b.cls(PL, n) for n in ("ReadTagRequestPacket", "ReadTagFragmentedRequestPacket", "WriteTagRequestPacket", "WriteTagFragmentedRequestPacket", "ReadModifyWriteRequestPacket", "MultiServiceRequestPacket"))
    req = lambda o: b.call(o, "build_request", CID, SESSION, CONTEXT, 0)  # noqa: E731
    V8 = b"\x01\x00\x00\x00\x02\x00\x00\x00"

    # ---------------------------------------------------------------- read requests
    k, r1 = b.new(PL, "ReadTagRequestPacket", 7, "T", 3, TI_DINT, 11, False)
    if k != "return":
        b.rec("read-request", "Read Tag constructed", RT, "unknown" if k == "unknown" else "check", False, "a request object", f"{k} {r1}")
        r1 = None
    else:
        b.fields("read-request", "Read Tag request keeps tag / elements / tag info / request id", RT, r1, {"tag": "T", "elements": 3, "tag_info": TI_DINT, "request_id": 11, "error": None})
        b.expect("read-request", "Read Tag frame", RT, req(r1), connected_frame(b"\x07\x00" + b"\x4c" + PATH + b"\x03\x00"), norm=_mask_timeout)
        b.expect("read-request", "Read Tag service portion (multi-service member)", RT, b.call(r1, "tag_only_message"), b"\x4c" + PATH + b"\x03\x00")
        # the same request framed for another connection id / session / context / option word: each argument lands in its own field
        k_, r1b = b.new(PL, "ReadTagRequestPacket", 7, "T", 3, TI_DINT, 11, False)
        if k_ == "return":
            msg_ = b"\x07\x00" + b"\x4c" + PATH + b"\x03\x00"
            cpf_ = bytes(4) + b"\x00\x00" + b"\x02\x00" + b"\xa1\x00\x04\x00" + b"\x55\x66\x77\x88" + b"\xb1\x00" + len(msg_).to_bytes(2, "little") + msg_
            want_ = b"\x70\x00" + len(cpf_).to_bytes(2, "little") + (0x0A0B0C0D).to_bytes(4, "little") + bytes(4) + b"CONTEXT8" + (0x01000002).to_bytes(4, "little") + cpf_
            b.expect("read-request", "Read Tag frame for another connection id, session, context and option word", RT, b.call(r1b, "build_request", b"\x55\x66\x77\x88", 0x0A0B0C0D, b"CONTEXT8", 0x01000002), want_, norm=_mask_timeout)
    k, r2 = b.new(PL, "ReadTagFragmentedRequestPacket", 7, "T", 3, TI_DINT, 11, False, 0x1234)
    if k != "return":
        b.rec("fragment-request", "Read Tag Fragmented constructed", RTF, "unknown" if k == "unknown" else "check", False, "a request object", f"{k} {r2}")
        r2 = None
    else:
        b.expect("fragment-request", "Read Tag Fragmented frame (offset 0x1234)", RTF, req(r2), connected_frame(b"\x07\x00" + b"\x52" + PATH + b"\x03\x00" + b"\x34\x12\x00\x00"), norm=_mask_timeout)
    if r1 is not None and r2 is not None:
        # (the last source is itself a fragment request with an offset of its own: the new offset is the one given - the bytes received
        # so far - not relative to the source's)
        for label, args, off in (("continuation at offset 500", ([9], r1, 500), 500), ("first fragment (no offset given)", ([9], r1), 0), ("continuation of a fragment (source offset 0x1234) at offset 9000", ([9], r2, 9000), 9000)):
            k, nr = b.call(r2, "from_request", *args)
            if k != "return" or not hasattr(nr, "__dict__"):
                b.rec("fragment-request", f"Read Tag Fragmented.from_request: {label}", RTF, "unknown" if k == "unknown" else "check", False, "a request object", f"{k} {nr}")
                continue
            b.fields("fragment-request", f"Read Tag Fragmented.from_request: {label}", RTF, nr, {"tag": "T", "elements": 3, "tag_info": TI_DINT, "request_id": 11, "offset": off, "request_path": args[1].__dict__.get("request_path"), "_sequence": 9})
            b.expect("fragment-request", f"Read Tag Fragmented.from_request frame: {label}", RTF, req(nr), connected_frame(b"\x09\x00" + b"\x52" + PATH + b"\x03\x00" + off.to_bytes(4, "little")), norm=_mask_timeout)

    # ---------------------------------------------------------------- write requests
    k, w1 = b.new(PL, "WriteTagRequestPacket", 7, "T", 2, TI_DINT, 12, False, V8)
    if k != "return":
        b.rec("write-request", "Write Tag constructed", WT, "unknown" if k == "unknown" else "check", False, "a request object", f"{k} {w1}")
        w1 = None
    else:
        b.expect("write-request", "Write Tag frame (DINT x2)", WT, req(w1), connected_frame(b"\x07\x00" + b"\x4d" + PATH + b"\xc4\x00" + b"\x02\x00" + V8), norm=_mask_timeout)
        b.fields("write-request", "Write Tag request reports no error when the path was built", WT, w1, {"error": None, "value": V8, "data_type": "DINT"})
    k, w2 = b.new(PL, "WriteTagRequestPacket", 7, "T", 1, TI_UDT, 12, False, b"\xaa\xbb")
    if k == "return":
        b.expect("write-request", "Write Tag frame (structure, handle 0xABCD)", WT, req(w2), connected_frame(b"\x07\x00" + b"\x4d" + PATH + b"\xa0\x02\xcd\xab" + b"\x01\x00" + b"\xaa\xbb"), norm=_mask_timeout)
    else:
        b.rec("write-request", "Write Tag (structure) constructed", WT, "unknown" if k == "unknown" else "check", False, "a request object", f"{k} {w2}")
    b.expect("write-request-refusals", "Write Tag of a structure refuses a non-bytes value", WT, b.new(PL, "WriteTagRequestPacket", 7, "T", 1, TI_UDT, 12, False, {"a": 1}), ("raise", "RequestError"))
    b.expect("write-request-refusals", "Write Tag refuses a data type that is not an elementary type", WT, b.new(PL, "WriteTagRequestPacket", 7, "T", 1, TI_BAD, 12, False, b"\x00"), ("raise", "RequestError"))
    k, w3 = b.new(PL, "WriteTagFragmentedRequestPacket", 7, "T", 2, TI_DINT, 12, False, 8, V8[:4])
    if k != "return":
        b.rec("fragment-request", "Write Tag Fragmented constructed", WTF, "unknown" if k == "unknown" else "check", False, "a request object", f"{k} {w3}")
        w3 = None
    else:
        b.expect("fragment-request", "Write Tag Fragmented frame (offset 8)", WTF, req(w3), connected_frame(b"\x07\x00" + b"\x53" + PATH + b"\xc4\x00" + b"\x02\x00" + b"\x08\x00\x00\x00" + V8[:4]), norm=_mask_timeout)
    if w1 is not None and w3 is not None:
        for label, args, off, val in (("segment at offset 4", ([9], w1, 4, b"\x02\x00\x00\x00"), 4, b"\x02\x00\x00\x00"), ("template (no offset / value given)", ([9], w1), 0, V8)):
            k, nw = b.call(w3, "from_request", *args)
            if k != "return" or not hasattr(nw, "__dict__"):
                b.rec("fragment-request", f"Write Tag Fragmented.from_request: {label}", WTF, "unknown" if k == "unknown" else "check", False, "a request object", f"{k} {nw}")
                continue
            b.fields("fragment-request", f"Write Tag Fragmented.from_request: {label}", WTF, nw, {"tag": "T", "elements": 2, "request_id": 12, "offset": off, "value": val, "request_path": w1.__dict__.get("request_path"), "data_type": "DINT"})
            b.expect("fragment-request", f"Write Tag Fragmented.from_request frame: {label}", WTF, req(nw), connected_frame(b"\x09\x00" + b"\x53" + PATH + b"\xc4\x00" + b"\x02\x00" + off.to_bytes(4, "little") + val), norm=_mask_timeout)

    # ---------------------------------------------------------------- read-modify-write
    def rmw(ti, bits):
        k_, m = b.new(PL, "ReadModifyWriteRequestPacket", 7, "T", ti, 13, False)
        if k_ != "return":
            return k_, m
        for i, (bit, val) in enumerate(bits):
            k2, r_ = b.call(m, "set_bit", bit, val, i)
            if k2 != "return":
                return k2, r_
        return "return", m

    for label, ti, bits, size, orm, andm in (
        ("DINT: set bit 3, clear bit 5", TI_DINT, [(3, True), (5, False)], 4, 0x08, 0xFFFFFFDF),
        ("DINT: clear then set bit 3", TI_DINT, [(3, False), (3, True)], 4, 0x08, 0xFFFFFFFF),
        ("DINT: set then clear bit 3", TI_DINT, [(3, True), (3, False)], 4, 0x00, 0xFFFFFFF7),
        ("LINT: set bit 40", TI_LINT, [(40, True)], 8, 1 << 40, 0xFFFFFFFFFFFFFFFF),
        ("DWORD (BOOL array): element 40 -> bit 8", TI_DWORD, [(40, True)], 4, 0x100, 0xFFFFFFFF),
        ("DINT: set bit 31", TI_DINT, [(31, True)], 4, 0x80000000, 0xFFFFFFFF),
    ):
        k, m = rmw(ti, bits)
        if k != "return":
            b.rec("bit-write", f"Read-Modify-Write {label}", RMW, "unknown" if k == "unknown" else "check", False, "a request", f"{k} {m}")
            continue
        b.expect("bit-write", f"Read-Modify-Write frame, {label}", RMW, req(m), connected_frame(b"\x07\x00" + b"\x4e" + PATH + size.to_bytes(2, "little") + orm.to_bytes(size, "little") + andm.to_bytes(size, "little")), norm=_mask_timeout)
        b.fields("bit-write", f"Read-Modify-Write bookkeeping, {label}", RMW, m, {"tag": "T", "tag_info": ti, "request_id": 13, "error": None, "_request_ids": list(range(len(bits)))})
    b.expect("bit-write-refusals", "Read-Modify-Write refuses bit 32 of a DINT", RMW, rmw(TI_DINT, [(32, True)]), ("raise", "RequestError"))
    b.expect("bit-write-refusals", "Read-Modify-Write refuses a negative bit", RMW, rmw(TI_DINT, [(-1, True)]), ("raise", "RequestError"))
    b.expect("bit-write-refusals", "Read-Modify-Write refuses a structure tag", RMW, rmw(TI_UDT, []), ("raise", "RequestError"))
    # bit numbers are confined to the type's width: every width x bit numbers around its borders (a wider bit would be cut off
    # the masks and reported as written; past bit 63 the mask encoder fails while the packet is built)
    for tname, width in (("SINT", 1), ("INT", 2), ("DINT", 4), ("LINT", 8), ("USINT", 1), ("UDINT", 4)):
        ti_ = {"tag_type": "atomic", "data_type_name": tname, "data_type": tname, "instance_id": 5}
        for bit in sorted({-1, 0, 1, 8 * width - 1, 8 * width, 8 * width + 1, 31, 32, 63, 64, 70}):
            for val in (True, False):
                k_, m_ = rmw(ti_, [(bit, val)])
                inside = 0 <= bit < 8 * width
                label = f"{tname} bit {bit} <- {val}"
                if k_ == "unknown":
                    b.rec("bit-range", label, RMW, "unknown", False, "", f"{m_}")
                elif inside:
                    orm_, andm_ = ((1 << bit) if val else 0), ((1 << (8 * width)) - 1) & ~(0 if val else (1 << bit))
                    if k_ != "return":
                        b.rec("bit-range", label, RMW, "check", False, "accepted", f"{k_} {m_}")
                    else:
                        b.expect("bit-range", f"{label}: frame", RMW, req(m_), connected_frame(b"\x07\x00" + b"\x4e" + PATH + width.to_bytes(2, "little") + orm_.to_bytes(width, "little") + andm_.to_bytes(width, "little")), norm=_mask_timeout)
                else:
                    b.rec("bit-range", f"{label}: refused", RMW, "check", (k_, m_) == ("raise", "RequestError"), "raise RequestError", f"{k_} {m_ if k_ != 'return' else 'accepted'}")
    # a shared packet: a bit refused for one request leaves the packet, and the bits accepted for the others, as they were
    k, m = rmw(TI_DINT, [(3, True), (5, False)])
    if k == "return":
        k2, r_ = b.call(m, "set_bit", 32, True, 2)
        b.rec("bit-write-refusals", "a refused bit on a packet that already holds bits: RequestError", RMW, "unknown" if k2 == "unknown" else "check", (k2, r_) == ("raise", "RequestError"), "raise RequestError", f"{k2} {r_}")
        if k2 != "unknown":
            b.fields("bit-write-refusals", "a refused bit leaves the shared packet without an error and with the accepted requests", RMW, m, {"error": None, "_request_ids": [0, 1]})
            b.expect("bit-write-refusals", "frame of the shared packet after a refused bit", RMW, req(m), connected_frame(b"\x07\x00" + b"\x4e" + PATH + b"\x04\x00" + (0x08).to_bytes(4, "little") + (0xFFFFFFDF).to_bytes(4, "little")), norm=_mask_timeout)
    k, m = b.new(PL, "ReadModifyWriteRequestPacket", 7, "bad", TI_DINT, 13, False)
    if k == "return":
        b.rec("bit-write-refusals", "Read-Modify-Write with an unbuildable path carries an error", RMW, "check", bool(m.__dict__.get("error")), "error set", f"error={m.__dict__.get('error')!r}")
    else:
        b.rec("bit-write-refusals", "Read-Modify-Write with an unbuildable path", RMW, "unknown" if k == "unknown" else "check", False, "request with error", f"{k} {m}")

    # ---------------------------------------------------------------- multiple service packet
    ms = None
    if r1 is not None and w1 is not None:
        m1, m2 = b"\x4c" + PATH + b"\x03\x00", b"\x4d" + PATH + b"\xc4\x00\x02\x00" + V8
        k, ms = b.new(PL, "MultiServiceRequestPacket", 7, [r1, w1])
        if k != "return":
            b.rec("multi-request", "Multiple Service Packet constructed", MS, "unknown" if k == "unknown" else "check", False, "a request", f"{k} {ms}")
            ms = None
        else:
            want = b"\x07\x00" + b"\x0a" + _marker([b"\x02", 1, b""]) + b"\x02\x00" + (6).to_bytes(2, "little") + (6 + len(m1)).to_bytes(2, "little") + m1 + m2
            b.expect("multi-request", "Multiple Service Packet frame (message router instance 1, count, offsets, services)", MS, req(ms), connected_frame(want), norm=_mask_timeout)

    # ---------------------------------------------------------------- a request is assembled once: building it again gives the same frame
    for label, name, args in (("Read Tag", "ReadTagRequestPacket", (7, "T", 3, TI_DINT, 11, False)), ("Write Tag", "WriteTagRequestPacket", (7, "T", 2, TI_DINT, 12, False, V8)),
                              ("Read Tag Fragmented", "ReadTagFragmentedRequestPacket", (7, "T", 3, TI_DINT, 11, False, 0x10)), ("Write Tag Fragmented", "WriteTagFragmentedRequestPacket", (7, "T", 2, TI_DINT, 12, False, 4, V8[:4])),
                              ("Read-Modify-Write", "ReadModifyWriteRequestPacket", (7, "T", TI_DINT, 13, False))):
        ci_ = b.cls(PL, name)
        k_, o_ = b.new(PL, name, *args)
        if k_ != "return":
            continue  # (construction is judged by the class's own witnesses)
        if name == "ReadModifyWriteRequestPacket":
            b.call(o_, "set_bit", 3, True, 0)
        first, second, third = req(o_), req(o_), b.call(o_, "build_message")
        if "unknown" in (first[0], second[0], third[0]):
            b.rec("build-twice", f"{label}: built twice", ci_, "unknown", False, "", f"{[x[1] for x in (first, second, third) if x[0] == 'unknown'][0]}")
        else:
            same = first[0] == "return" and second == first and third[0] == "return" and isinstance(first[1], (bytes, bytearray)) and bytes(first[1]).endswith(bytes(third[1]))
            b.rec("build-twice", f"{label}: built twice", ci_, "check", same, "the same frame both times (sequence, service, path and data once)",
                  f"first {first[0]} {len(first[1]) if isinstance(first[1], (bytes, bytearray)) else first[1]} bytes, second {second[0]} {len(second[1]) if isinstance(second[1], (bytes, bytearray)) else second[1]} bytes: building a request again changes its frame (the message is assembled more than once)")

    # ---------------------------------------------------------------- responses
    RR, RFR, WR, MR = (b.cls(PL, n) for n in ("ReadTagResponsePacket", "ReadTagFragmentedResponsePacket", "WriteTagResponsePacket", "MultiServiceResponsePacket"))
    payload = b"\xc4\x00" + bytes(range(12))

    def response(group, label, ci, mod, name, request, raw, fields, valid, error, extra=None):
        k_, o = b.new(mod, name, request, raw)
        if k_ != "return":
            b.rec(group, label, ci, "unknown" if k_ == "unknown" else "check", False, "a response object", f"{k_} {o}")
            return None
        b.fields(group, f"{label}: fields", ci, o, fields)
        b.expect(group, f"{label}: is_valid()", ci, b.call(o, "is_valid"), valid)
        b.expect(group, f"{label}: __bool__", ci, b.call(o, "__bool__"), valid)
        if error is not Ellipsis:
            b.expect(group, f"{label}: error", ci, b.call(o, "error"), error)
        else:
            k2, e = b.call(o, "error")
            b.rec(group, f"{label}: error is a non-empty text", ci, "unknown" if k2 == "unknown" else "check", k2 == "return" and isinstance(e, str) and bool(e), "non-empty text", f"{k2} {e!r}")
        if extra:
            extra(o)
        return o

    if r1 is not None:
        response("read-response", "Read Tag reply, status 0", RR, PL, "ReadTagResponsePacket", r1, connected_reply(0xCC, 0, payload),
                 {"tag": "T", "elements": 3, "tag_info": TI_DINT, "value": ("parsed", payload, TI_DINT, 3), "data_type": "DINT", "service_status": 0, "data": payload, "request": r1}, True, None)
        response("read-response-errors", "Read Tag reply, general status 0x04", RR, PL, "ReadTagResponsePacket", r1, connected_reply(0xCC, 4, b""), {"value": None, "tag": "T", "service_status": 4}, False, "<status 4> - <ext@48>")
        response("read-response-errors", "Read Tag reply, encapsulation status 0x65", RR, PL, "ReadTagResponsePacket", r1, connected_reply(0xCC, 0, payload, enc_status=0x65), {"value": None, "command_status": 0x65}, False, "<status 101> - <ext@48>")
        response("read-response-errors", "no reply data", RR, PL, "ReadTagResponsePacket", r1, None, {"value": None, "tag": "T", "data_type": None}, False, "No response data received")
        response("read-response-errors", "Read Tag reply with status 0x06 (partial transfer is not success for a plain read)", RR, PL, "ReadTagResponsePacket", r1, connected_reply(0xCC, 6, payload), {"service_status": 6}, False, "<status 6> - <ext@48>")
        response("read-response-errors", "reply cut inside the encapsulation header", RR, PL, "ReadTagResponsePacket", r1, b"\x70\x00\x00", {"value": None}, False, Ellipsis)
    if r2 is not None:
        def frag_value(label, dt, vb):
            def chk(o):
                b.fields("fragment-response", f"{label}: type / value bytes split", RFR, o, {"_data_type": dt, "value_bytes": vb})
                k2, _ = b.call(o, "parse_value")
                if k2 != "return":
                    b.rec("fragment-response", f"{label}: parse_value()", RFR, "unknown" if k2 == "unknown" else "check", False, "value parsed", f"{k2} {_}")
                else:
                    b.fields("fragment-response", f"{label}: parse_value() decodes type + accumulated bytes with the request's tag info and element count", RFR, o, {"value": ("parsed", dt + vb, TI_DINT, 3), "data_type": "DINT"})
            return chk

        response("fragment-response", "Read Tag Fragmented reply, status 0x06 (more to come), atomic", RFR, PL, "ReadTagFragmentedResponsePacket", r2, connected_reply(0xD2, 6, payload), {"service_status": 6, "value": None}, True, None,
                 frag_value("atomic fragment", b"\xc4\x00", payload[2:]))
        sp = b"\xa0\x02\xcd\xab" + bytes(range(8))
        response("fragment-response", "Read Tag Fragmented reply, status 0, structure", RFR, PL, "ReadTagFragmentedResponsePacket", r2, connected_reply(0xD2, 0, sp), {"service_status": 0}, True, None, frag_value("structure fragment", sp[:4], sp[4:]))

        def invalid_frag(o):
            k2, _ = b.call(o, "parse_value")
            if k2 == "return":
                b.fields("fragment-response", "failed fragment: parse_value() leaves no value", RFR, o, {"value": None, "data_type": None})
            else:
                b.rec("fragment-response", "failed fragment: parse_value()", RFR, "unknown" if k2 == "unknown" else "check", False, "no value", f"{k2} {_}")

        response("fragment-response", "Read Tag Fragmented reply, status 0x04", RFR, PL, "ReadTagFragmentedResponsePacket", r2, connected_reply(0xD2, 4, b""), {"service_status": 4}, False, "<status 4> - <ext@48>", invalid_frag)
    # ---- replies cut at every length: constructing the response never raises; a reply too short to hold its general status is
    # not valid; whenever a service status was decoded the reply data was sliced out too, and for a fragment whose status says
    # success / more-to-come the value bytes are there (the driver's fragment loop measures them)
    def cut_replies(label, ci, name, request, raw, first_valid, frag=False, complete_valid=True):
        bad, unknown = [], None
        for n in range(0, len(raw) + 1):
            k_, o = b.new(PL, name, request, raw[:n])
            if k_ == "unknown":
                unknown = f"cut at {n}: {o}"
                break
            if k_ != "return":
                bad.append(f"cut at {n}: constructing the response gives {k_} {o}")
                continue
            d = o.__dict__
            kv, valid = b.call(o, "is_valid")
            if kv == "unknown":
                unknown = f"cut at {n}: is_valid(): {valid}"
                break
            if kv != "return":
                bad.append(f"cut at {n}: is_valid() gives {kv} {valid}")
                continue
            if valid and n < first_valid:
                bad.append(f"cut at {n} (before the general status at {first_valid - 1}): reported valid with status {d.get('service_status')!r}")
            if bool(valid) is not complete_valid and n >= len(raw):
                bad.append(f"the complete reply is {'not ' if complete_valid else ''}valid")
            if d.get("service_status") is not None and d.get("data") is None:
                bad.append(f"cut at {n}: service status {d.get('service_status')!r} decoded but no reply data")
            if frag and (valid or d.get("service_status") == 6) and d.get("value_bytes") is None:
                bad.append(f"cut at {n}: a fragment that is valid or says 'more to come' (status {d.get('service_status')!r}) without value bytes (the fragment loop measures them)")
        if unknown is not None:
            b.rec("cut-replies", label, ci, "unknown", False, "", unknown)
        else:
            b.rec("cut-replies", label, ci, "check", not bad, "every cut classified (valid only with its status word; status decoded => data present)", "; ".join(bad[:3]))

    if r1 is not None:
        cut_replies("Read Tag reply cut at every length", RR, "ReadTagResponsePacket", r1, connected_reply(0xCC, 0, payload), 49)
    if r2 is not None:
        cut_replies("Read Tag Fragmented reply (status 6) cut at every length", RFR, "ReadTagFragmentedResponsePacket", r2, connected_reply(0xD2, 6, payload), 49, frag=True)
        cut_replies("Read Tag Fragmented reply (status 0, structure) cut at every length", RFR, "ReadTagFragmentedResponsePacket", r2, connected_reply(0xD2, 0, b"\xa0\x02\xcd\xab" + bytes(range(8))), 49, frag=True)
        cut_replies("Read Tag Fragmented reply (status 6 under an encapsulation error) cut at every length", RFR, "ReadTagFragmentedResponsePacket", r2, connected_reply(0xD2, 6, payload, enc_status=0x65), 49, frag=True, complete_valid=False)
        cut_replies("reply with an unknown reply-service code (status 6) cut at every length", RFR, "ReadTagFragmentedResponsePacket", r2, connected_reply(0x7F, 6, payload), 49, frag=True, complete_valid=False)
    if w1 is not None:
        cut_replies("Write Tag reply cut at every length", WR, "WriteTagResponsePacket", w1, connected_reply(0xCD, 0, b""), 49)
    if w1 is not None:
        response("write-response", "Write Tag reply, status 0", WR, PL, "WriteTagResponsePacket", w1, connected_reply(0xCD, 0, b""), {"tag": "T", "elements": 2, "value": V8, "data_type": "DINT", "service_status": 0}, True, None)
        response("write-response", "Write Tag reply, status 0x05", WR, PL, "WriteTagResponsePacket", w1, connected_reply(0xCD, 5, b""), {"tag": "T", "value": V8, "data_type": "DINT"}, False, "<status 5> - <ext@48>")
    if ms is not None:
        rep1, rep2_ok, rep2_bad = b"\xcc\x00\x00\x00" + payload, b"\xcd\x00\x00\x00", b"\xcd\x00\x04\x00"
        for label, rep2, ok2 in (("both services succeed", rep2_ok, True), ("second service fails with 0x04", rep2_bad, False)):
            data = b"\x02\x00" + (6).to_bytes(2, "little") + (6 + len(rep1)).to_bytes(2, "little") + rep1 + rep2
            status = 0 if ok2 else 0x1E

            def members(o, label=label, ok2=ok2):
                rs = o.__dict__.get("responses")
                if not (isinstance(rs, list) and len(rs) == 2 and all(hasattr(x, "__dict__") for x in rs)):
                    b.rec("multi-response", f"Multiple Service reply ({label}): one response per request", MR, "check", False, "2 member responses", f"{rs!r}"[:200])
                    return
                b.fields("multi-response", f"Multiple Service reply ({label}): first member is the read's reply", MR, rs[0], {"tag": "T", "value": ("parsed", payload, TI_DINT, 3), "service_status": 0, "request": r1})
                b.expect("multi-response", f"Multiple Service reply ({label}): first member valid", MR, b.call(rs[0], "is_valid"), True)
                b.fields("multi-response", f"Multiple Service reply ({label}): second member is the write's reply", MR, rs[1], {"tag": "T", "value": V8, "service_status": 0 if ok2 else 4, "request": w1})
                b.expect("multi-response", f"Multiple Service reply ({label}): second member validity", MR, b.call(rs[1], "is_valid"), ok2)

            response("multi-response", f"Multiple Service reply ({label})", MR, PL, "MultiServiceResponsePacket", ms, connected_reply(0x8A, status, data), {"request": ms}, ok2, Ellipsis if not ok2 else None, members)

    # ---------------------------------------------------------------- generic / session packets
    GC, GU, SU, RS = b.cls(PC, "GenericConnectedRequestPacket"), b.cls(PC, "GenericUnconnectedRequestPacket"), b.cls(PE, "SendUnitDataRequestPacket"), b.cls(PE, "RegisterSessionRequestPacket")
    k, g1 = b.new(PC, "GenericConnectedRequestPacket", 7, 0x0E, b"\x01", b"\x01", b"\x07", b"\xde\xad", None)
    if k == "return":
        b.expect("generic-request", "generic connected message frame (int service)", GC, req(g1), connected_frame(b"\x07\x00" + b"\x0e" + _marker([b"\x01", b"\x01", b"\x07"]) + b"\xde\xad"), norm=_mask_timeout)
        uint = ClassRef(b.ctx.model.cls("pycomm3.cip.data_types:UINT"))
        for label, dt, raw, fields, valid in (
            ("no data type: value is the raw data", None, connected_reply(0x8E, 0, b"\x34\x12"), {"value": b"\x34\x12", "service_status": 0}, True),
            ("failed service: no decoded value", uint, connected_reply(0x8E, 8, b""), {"value": None, "service_status": 8}, False),
        ):
            k2, gx = b.new(PC, "GenericConnectedRequestPacket", 7, 0x0E, b"\x01", b"\x01", b"\x07", b"", dt)
            if k2 == "return":
                response("generic-response", f"generic connected reply, {label}", b.cls(PC, "GenericConnectedResponsePacket"), PC, "GenericConnectedResponsePacket", gx, raw, fields, valid, Ellipsis if not valid else None)
    else:
        b.rec("generic-request", "generic connected message constructed", GC, "unknown" if k == "unknown" else "check", False, "a request", f"{k} {g1}")
    k, g2 = b.new(PC, "GenericConnectedRequestPacket", 7, b"\x4b", 0x67, 1)
    if k == "return":
        b.expect("generic-request", "generic connected message frame (bytes service, no attribute, no data)", GC, req(g2), connected_frame(b"\x07\x00" + b"\x4b" + _marker([0x67, 1, b""])), norm=_mask_timeout)
    for label, kw, msg in (
        ("direct", dict(request_data=b"\xde\xad", route_path=b"\x01\x00"), b"\x0e" + _marker([b"\x01", b"\x01", b"\x07"]) + b"\xde\xad" + b"\x01\x00"),
        ("wrapped in Unconnected Send", dict(request_data=b"\xde\xad", route_path=b"\x01\x00", unconnected_send=True), b"[" + b"\x0e" + _marker([b"\x01", b"\x01", b"\x07"]) + b"\xde\xad" + b"|" + b"\x01\x00" + b"]"),
    ):
        k, g3 = b.new(PC, "GenericUnconnectedRequestPacket", 0x0E, b"\x01", b"\x01", b"\x07", **kw)
        if k == "return":
            b.expect("generic-request", f"generic unconnected message frame ({label})", GU, req(g3), unconnected_frame(msg), norm=_mask_timeout)
            if label == "direct":
                gur = b.cls(PC, "GenericUnconnectedResponsePacket")
                response("generic-response", "generic unconnected reply, status 0", gur, PC, "GenericUnconnectedResponsePacket", g3, unconnected_reply(0x8E, 0, b"\x34\x12"), {"value": b"\x34\x12", "service_status": 0, "data": b"\x34\x12"}, True, None)
                response("generic-response-errors", "generic unconnected reply, status 0x08", gur, PC, "GenericUnconnectedResponsePacket", g3, unconnected_reply(0x8E, 8, b""), {"service_status": 8}, False, "<status 8> - <ext@42>")
                response("generic-response-errors", "generic unconnected reply, encapsulation status 3", gur, PC, "GenericUnconnectedResponsePacket", g3, unconnected_reply(0x8E, 0, b"", enc_status=3), {"command_status": 3}, False, "<status 3> - <ext@42>")
        else:
            b.rec("generic-request", f"generic unconnected message constructed ({label})", GU, "unknown" if k == "unknown" else "check", False, "a request", f"{k} {g3}")
    k, s1 = b.new(PE, "SendUnitDataRequestPacket", 7)
    if k == "return":
        k2, _ = b.call(s1, "add", b"AB", b"CD")
        b.expect("raw-request", "connected request with added data (PCCC commands are attached with add())", SU, req(s1), connected_frame(b"\x07\x00" + b"AB" + b"CD"), norm=_mask_timeout)
        b.expect("raw-request", "building the message twice does not repeat the added data", SU, req(s1), connected_frame(b"\x07\x00" + b"AB" + b"CD"), norm=_mask_timeout)
    else:
        b.rec("raw-request", "connected request constructed", SU, "unknown" if k == "unknown" else "check", False, "a request", f"{k} {s1}")
    k, rs = b.new(PE, "RegisterSessionRequestPacket", b"\x01\x00")
    if k == "return":
        b.expect("session-request", "Register Session frame", RS, b.call(rs, "build_request", None, 0, CONTEXT, 0), header(b"\x65\x00", 4, session=0) + b"\x01\x00\x00\x00")
        rsr = b.cls(PE, "RegisterSessionResponsePacket")
        response("session-response", "Register Session reply", rsr, PE, "RegisterSessionResponsePacket", rs, header(b"\x65\x00", 4, session=0x0A0B0C0D) + b"\x01\x00\x00\x00", {"session": 0x0A0B0C0D}, True, None)
    else:
        b.rec("session-request", "Register Session constructed", RS, "unknown" if k == "unknown" else "check", False, "a request", f"{k} {rs}")
    for name, cmd in (("UnRegisterSessionRequestPacket", b"\x66\x00"), ("ListIdentityRequestPacket", b"\x63\x00")):
        k, o = b.new(PE, name)
        if k == "return":
            b.expect("session-request", f"{name} frame (header only)", b.cls(PE, name), b.call(o, "build_request", None, SESSION, CONTEXT, 0), header(cmd, 0))
            if name == "ListIdentityRequestPacket":
                lir = b.cls(PE, "ListIdentityResponsePacket")
                ident = b"\x01\x00" + b"\x0c\x00" + bytes(range(40))
                raw = header(b"\x63\x00", len(ident), session=0) + ident
                response("identity-response", "List Identity reply", lir, PE, "ListIdentityResponsePacket", o, raw, {"data": raw[26:], "identity": ("identity", raw[26:]), "command": b"\x63\x00", "command_status": 0}, True, None)
                response("identity-response", "List Identity reply with encapsulation status 1", lir, PE, "ListIdentityResponsePacket", o, raw[:8] + b"\x01\x00\x00\x00" + raw[12:], {"command_status": 1}, False, Ellipsis)
        else:
            b.rec("session-request", f"{name} constructed", b.cls(PE, name), "unknown" if k == "unknown" else "check", False, "a request", f"{k} {o}")


def bench(ctx):
    if not hasattr(ctx, "_packet_bench"):
        b = _Bench(ctx)
        _build(b)
        ctx._packet_bench = b.out
    return ctx._packet_bench


def _emit(ctx, groups):
    for group, label, ci, kind, ok, want, got in bench(ctx):
        if group not in groups:
            continue
        key = ckey(ci.key, f"frame:{group}:{label}")
        if kind == "unknown":
            ctx.undecided(key, ci.node, f"{label}: not foldable: {got}")
        else:
            ctx.check(bool(ok), key, ci.node, f"{label}: {want}"[:300], f"{label}: expected {want}; the packet class gives {got}"[:700], witness=label)


def _reg(prop, rid, groups, floor, doc):
    @rule(prop, rid, "T-WITNESS", floor=floor)
    def _r(ctx):
        _emit(ctx, groups)

    _r.__doc__ = doc
    return _r


_reg("C01", "D1.12", {"read-request", "read-response", "multi-request", "multi-response"}, 10,
     "Read Tag / Multiple Service request frames and their replies, folded on witness packets: service 0x4C, path, element count; reply fields, value decoded from the reply data with the request's tag info and element count.")
_reg("C02", "D2.11", {"write-request", "write-request-refusals", "write-response", "bit-write", "bit-write-refusals", "multi-request", "build-twice"}, 15,
     "Write Tag and Read-Modify-Write request frames folded on witness packets: service, path, type code (elementary: code; structure: A0 02 + handle), element count, data; or/and masks of the addressed bits only; refusals are RequestError.")
_reg("C03", "D3.10", {"multi-response", "write-request-refusals", "bit-write-refusals", "read-response-errors"}, 10,
     "A failed member of a Multiple Service reply fails only its own response; a request that cannot be built is refused with RequestError (the error the per-request handlers of read/write catch); failed replies carry no value.")
_reg("C04", "D4.9", {"fragment-request", "fragment-response"}, 10,
     "Read/Write Tag Fragmented request frames (byte offset after the element count, continuation requests copy tag, path, element count and take the new offset / segment) and fragment replies (type prefix 2 bytes, 4 for structures; status 6 is success).")
_reg("C09", "D9.9", {"multi-request", "generic-request"}, 4,
     "Request frames pass class / instance / attribute to the path encoder unchanged and in order; the Multiple Service Packet goes to the Message Router, instance 1.")
_reg("C13", "D13.9", {"read-response-errors", "generic-response-errors", "write-response", "fragment-response", "cut-replies"}, 10,
     "A failed reply is falsy and its error names the encapsulation or general status with the extended status found at the reply's status offset (48 connected, 42 unconnected); a successful one has no error.")
_reg("C14", "D14.8", {"generic-request", "generic-response", "generic-response-errors"}, 6,
     "generic_message packets: service, path, data (and route or Unconnected Send wrapper) in order in a connected / unconnected frame; the reply value is the raw data unless a type is given, and absent on failure.")
_reg("C18", "D18.14", {"raw-request"}, 2,
     "The connected request the SLC driver attaches PCCC commands to: sequence count followed by the added data, in order, exactly once.")
_reg("C16", "D16.7", {"identity-response", "session-request"}, 4,
     "List Identity: header-only request; the reply's identity item (after the 24-byte header and the 2-byte item count) is handed to the identity decoder, and a reply with a non-zero encapsulation status is falsy.")
_reg("C10", "D10.10", {"session-request", "session-response"}, 4,
     "Register / UnRegister Session and List Identity frames: 24-byte header with command, data length, session handle, context and options; the session handle is read from the Register Session reply.")


@rule("C01", "D1.13", "T-WITNESS", floor=12)
def d1_13(ctx):
    path_and_reply_witnesses(ctx, ("tag-path", "reply"))


@rule("C14", "D14.13", "T-WITNESS", floor=6)
def d14_13(ctx):
    """request_path folded on witness class / instance / attribute values (incl. instance 0 and bytes values): the segments a
    generic message is addressed with, in order, with the word-count prefix."""
    path_and_reply_witnesses(ctx, ("request-path",))


def path_and_reply_witnesses(ctx, parts):
    """tag_request_path and parse_read_reply folded on witnesses (segment constructors, the path encoder and the type's
    decoder are markers that carry their arguments): a tag string addresses base [indices] then each member [its own
    indices], in order; the symbol instance is used only when asked for, known, and the tag is not program-scoped; the reply
    value is decoded from the bytes after the 2-byte (structures: 4-byte) type prefix with the requested element count, one
    non-bit element is unwrapped, structures are projected on their visible attributes, and the type string carries the
    element count (BOOL[32 * n] for bit arrays)."""
    from ..astutil import attr_path
    from ..miniinterp import Obj, Stream, run_function

    PU = "pycomm3.packets.util"
    fn = ctx.model.func(f"{PU}:tag_request_path")
    sym = ctx.folder.eval(ast.parse("ClassCode.symbol_object", mode="eval").body, fn.module)

    def hook(call, env, it):
        n = call_name(call) or ""
        if n == "LogicalSegment":
            a = [it.ev(x, env) for x in call.args] + [it.ev(k.value, env) for k in call.keywords]
            return ("L",) + tuple(a)
        if n == "DataSegment":
            return ("D", it.ev(call.args[0], env))
        if (attr_path(call.func) or "") == "PADDED_EPATH.encode":
            segs = it.ev(call.args[0], env)
            kw = {k.arg: it.ev(k.value, env) for k in call.keywords}
            return ("EPATH", tuple(segs), kw.get("length", it.ev(call.args[1], env) if len(call.args) > 1 else False))
        return UNKNOWN

    D, M = (lambda n: ("D", n)), (lambda i: ("L", i, "member_id"))  # noqa: E731
    inst = [("L", sym, "class_id"), ("L", 5, "instance_id")]
    cases = [
        ("T", {}, False, [D("T")]), ("arr[2]", {}, False, [D("arr"), M(2)]), ("arr[1,2,3]", {}, False, [D("arr"), M(1), M(2), M(3)]),
        ("udt_arr[2].member", {}, False, [D("udt_arr"), M(2), D("member")]), ("udt.arr[3].x", {}, False, [D("udt"), D("arr"), M(3), D("x")]),
        ("a[1].b[2,7].c[3]", {}, False, [D("a"), M(1), D("b"), M(2), M(7), D("c"), M(3)]),
        ("T", {"instance_id": 5}, True, inst), ("T[4].m[6]", {"instance_id": 5}, True, inst + [M(4), D("m"), M(6)]),
        ("Program:P.T", {"instance_id": 5}, True, [D("Program:P"), D("T")]), ("T", {"instance_id": 5}, False, [D("T")]), ("T", {}, True, [D("T")]), ("T", {"instance_id": 0}, True, [D("T")]),
    ]
    p = [a.arg for a in fn.node.args.args]
    if "request-path" in parts:
        # request_path(class, instance[, attribute]): the three logical segments in this order, attribute only when given, with
        # the word-count prefix
        rq = ctx.model.func(f"{PU}:request_path")
        q = [a.arg for a in rq.node.args.args]
        L = lambda v, t: ("L", v, t)  # noqa: E731
        for label, args, want in (("class and instance", (b"\x02", 1), [L(b"\x02", "class_id"), L(1, "instance_id")]), ("class, instance, attribute", (0x8D, 3, 7), [L(0x8D, "class_id"), L(3, "instance_id"), L(7, "attribute_id")]),
                                  ("bytes attribute", (b"\x6b", b"\x05\x00", b"\x01"), [L(b"\x6b", "class_id"), L(b"\x05\x00", "instance_id"), L(b"\x01", "attribute_id")]),
                                  ("empty attribute", (b"\xac", 1, b""), [L(b"\xac", "class_id"), L(1, "instance_id")]),
                                  ("instance 0 (class-level addressing)", (0x6B, 0), [L(0x6B, "class_id"), L(0, "instance_id")]),
                                  ("instance 0 with an attribute", (b"\x02", 0, 7), [L(b"\x02", "class_id"), L(0, "instance_id"), L(7, "attribute_id")]),
                                  ("class 0", (0, 1), [L(0, "class_id"), L(1, "instance_id")])):
            env = dict(zip(q, args))
            if len(args) < len(q):
                d_ = rq.node.args.defaults
                for a_, dv in zip(q[len(q) - len(d_):], d_):
                    env.setdefault(a_, ctx.folder.eval(dv, rq.module))
            kind, res = run_function(ctx, rq.module, rq.node, env, call_hook=hook, deep=False)
            key = ckey(rq, f"witness:{label}")
            if kind == "unknown":
                ctx.undecided(key, rq.node, f"request_path not foldable on {label}: {res}")
                continue
            ctx.check(kind == "return" and res == ("EPATH", tuple(want), True), key, rq.node, f"request_path{args!r} -> {want}, with the word-count prefix",
                      f"request_path{args!r} gives {kind} {res!r}; expected the padded EPATH (with length) of {want}", witness=label)
    for tag, ti, use, want in (cases if "tag-path" in parts else ()):
        kind, res = run_function(ctx, fn.module, fn.node, {p[0]: tag, p[1]: dict(ti), p[2]: use}, call_hook=hook, deep=False)
        key = ckey(fn, f"witness:{tag}|{sorted(ti)}|{use}")
        if kind == "unknown":
            ctx.undecided(key, fn.node, f"tag_request_path not foldable on {tag!r}: {res}")
            continue
        ctx.check(kind == "return" and res == ("EPATH", tuple(want), True), key, fn.node, f"{tag!r} (instance ids {'on' if use else 'off'}, {ti}) -> {want}, with the word-count prefix",
                  f"tag_request_path({tag!r}, {ti}, {use}) gives {kind} {res!r}; expected the padded EPATH (with length) of {want}", witness=tag)

    if "reply" not in parts:
        return
    pr = ctx.model.func(f"{PU}:parse_read_reply")
    decoded = []

    def hook2(call, env, it):
        n = call_name(call) or ""
        if n == "issubclass":
            v_ = it.ev(call.args[0], env)
            want_kind = {"ArrayType": ("array",), "BitArrayType": ("bits",), "StringDataType": ("string",)}.get(ast.unparse(call.args[1]).split(".")[-1])
            if want_kind is None or not isinstance(v_, Obj):
                return UNKNOWN
            return v_.__dict__.get("kind") in want_kind
        if isinstance(call.func, ast.Attribute) and call.func.attr == "decode":
            try:
                recv = it.ev(call.func.value, env)
            except Exception:
                return UNKNOWN
            if isinstance(recv, Obj) and "kind" in recv.__dict__:
                st = it.ev(call.args[0], env)
                kw = {k.arg: it.ev(k.value, env) for k in call.keywords}
                rest = st.data[st.pos:] if isinstance(st, Stream) else st
                decoded.append((rest, kw))
                k_ = recv.__dict__["kind"]
                if k_ == "array":
                    return [("elem", i) for i in range(kw.get("length", 0) or 0)]
                if k_ == "struct":
                    return {"a": 1, "__hidden": 2, "b": 3}
                if k_ == "string":
                    return "text"
                return ("scalar", rest)
        return UNKNOWN

    body4, body8 = bytes(range(1, 5)), bytes(range(1, 9))
    scalar, bits, struct_, string_ = Obj(kind="scalar"), Obj(kind="bits"), Obj(kind="struct"), Obj(kind="string")
    arr = lambda el: Obj(kind="array", element_type=el)  # noqa: E731
    info = lambda name, tc, attrs=None: {"data_type_name": name, "type_class": tc, "data_type": {"attributes": attrs or []} if attrs is not None else name}  # noqa: E731
    rcases = [
        ("DINT scalar", b"\xc4\x00" + body4, info("DINT", scalar), 1, ("scalar", body4), "DINT", (body4, {})),
        ("DINT array, 3 elements", b"\xc4\x00" + body8, info("DINT", arr(scalar)), 3, [("elem", 0), ("elem", 1), ("elem", 2)], "DINT[3]", (body8, {"length": 3})),
        ("DINT array, 1 element (unwrapped)", b"\xc4\x00" + body4, info("DINT", arr(scalar)), 1, ("elem", 0), "DINT", (body4, {"length": 1})),
        ("DWORD array, 1 element (bit array: stays a list)", b"\xd3\x00" + body4, info("DWORD", arr(bits)), 1, [("elem", 0)], "BOOL[32]", (body4, {"length": 1})),
        ("DWORD array, 4 elements", b"\xd3\x00" + body8, info("DWORD", arr(bits)), 4, [("elem", i) for i in range(4)], "BOOL[128]", (body8, {"length": 4})),
        ("structure", b"\xa0\x02\xcd\xab" + body8, info("udt", struct_, ["a", "b"]), 1, {"a": 1, "b": 3}, "udt", (body8, {})),
        ("string structure (not projected)", b"\xa0\x02\xce\x0f" + body8, info("STRING", string_, ["LEN", "DATA"]), 1, "text", "STRING", (body8, {})),
        ("structure array, 2 elements", b"\xa0\x02\xcd\xab" + body8, info("udt", arr(struct_), ["a", "b"]), 2, [("elem", 0), ("elem", 1)], "udt[2]", (body8, {"length": 2})),
    ]
    rp = [a.arg for a in pr.node.args.args]
    for label, data, ti, n, want_v, want_name, want_call in rcases:
        del decoded[:]
        kind, res = run_function(ctx, pr.module, pr.node, {rp[0]: data, rp[1]: ti, rp[2]: n}, call_hook=hook2, deep=False)
        key = ckey(pr, f"witness:{label}")
        if kind == "unknown":
            ctx.undecided(key, pr.node, f"parse_read_reply not foldable on {label}: {res}")
            continue
        ok = kind == "return" and isinstance(res, tuple) and len(res) == 2 and res[0] == want_v and res[1] == want_name and decoded == [want_call]
        ctx.check(ok, key, pr.node, f"{label}: value {want_v!r}, type {want_name!r}, decoder given {want_call[0].hex()} {want_call[1]}",
                  f"parse_read_reply on {label} gives {kind} {res!r} with decoder calls {[(d.hex() if isinstance(d, bytes) else d, k) for d, k in decoded]}; expected ({want_v!r}, {want_name!r}) from one decode of {want_call[0].hex()} {want_call[1]}", witness=label)
