"""C08 -- Codec failures are DataError: never foreign, silent or non-terminating."""
from __future__ import annotations

import ast

from ..astutil import attr_path, call_name, walk, enclosing_func, src
from ..cfg import exc_name, handler_names
from ..framework import rule
from ..linexpr import atom_name, cmp_norm, emptiness, lin, Lin
from ..wrap import WrapSpec, wrap_problems
from .common import DT, CT, ckey, datatype_classes, only_raises_notimplemented

EXPLANATION = (
    "Static rules D8.1-D8.7 (DESIGN.md section 5, C08) over every DataType subclass in the model "
    "(module-level classes and the classes produced by the Struct/Array/StructTag/FixedSizeString/n_bytes factories): "
    "T-WRAP containment of the two base wrappers and of every public encode/decode override (all paths, incl. statements "
    "outside the try), the BufferEmptyError pass-through, the exception class hierarchy, the empty/short-read guards of "
    "_stream_read by dominance in its CFG, raw stream reads inside decoders, the termination shape of the unbounded-array "
    "loop, and who-may-call the private _encode/_decode. Decides the structural necessary conditions of 'only DataError "
    "escapes, no short fixed-width value, terminates'; does not decide which Python values struct.pack rejects."
)
ASSUMPTIONS = [
    "struct.pack/unpack and str.encode/bytes.decode raise only Exception subclasses (caught by the wrappers)",
    "zero-width element types (n_bytes(0), empty Struct) are not used with unbounded arrays",
    "no monkey-patching of codec classes at run time",
]

P = "C08"


def _spec(decode: bool):
    return WrapSpec(
        mode="raise",
        allowed_raise={"DataError"},
        passthrough={"BufferEmptyError"} if decode else set(),
        safe_calls=lambda c: isinstance(c.func, ast.Name) and c.func.id == "_as_stream",
    )


def _has_buffer_empty_passthrough(func) -> bool:
    for n in walk(func):
        if isinstance(n, ast.ExceptHandler):
            names = handler_names(n)
            if names == ["BufferEmptyError"] and any(isinstance(s, ast.Raise) and s.exc is None for s in n.body):
                return True
            for s in walk(n):
                if isinstance(s, ast.If) and isinstance(s.test, ast.Call) and call_name(s.test) == "isinstance" and len(s.test.args) == 2:
                    tgt = s.test.args[1]
                    nm = [exc_name(x) for x in tgt.elts] if isinstance(tgt, ast.Tuple) else [exc_name(tgt)]
                    if "BufferEmptyError" in nm and any(isinstance(b, ast.Raise) and b.exc is None for b in s.body):
                        return True
    return False


@rule(P, "D8.1", "T-WRAP", floor=4)
def d8_1(ctx):
    """Base wrappers DataType.encode / DataType.decode convert every exception into DataError; BufferEmptyError passes decode unchanged; exception hierarchy."""
    base = ctx.model.cls(f"{DT}:DataType")
    for name in ("encode", "decode"):
        fn = ctx.model.own_method(base, name)
        if fn is None:
            ctx.undecided(ckey(base.key + "." + name), base.node, "base wrapper vanished")
            continue
        probs = wrap_problems(fn.node, _spec(name == "decode"))
        if probs:
            for node, why in probs:
                ctx.violation(ckey(fn), node, why, stmt=src(node).splitlines()[0][:100])
        else:
            ctx.ok(ckey(fn), fn.node, "whole body contained; handler re-raises DataError from err", allowed=["DataError"])
        if name == "decode":
            ctx.check(
                _has_buffer_empty_passthrough(fn.node),
                ckey(fn, "passthrough"),
                fn.node,
                "BufferEmptyError re-raised unchanged",
                "decode wrapper does not re-raise BufferEmptyError unchanged (unbounded arrays rely on it)",
            )
    h = ctx.exc_hierarchy()
    chain_ok = h.get("BufferEmptyError") == "DataError" and h.get("DataError") == "PycommError" and h.get("PycommError") == "Exception"
    exc_mod = ctx.model.module("pycomm3.exceptions")
    ctx.check(chain_ok, "pycomm3.exceptions#hierarchy", exc_mod.tree.body[0] if exc_mod.tree.body else None, "BufferEmptyError < DataError < PycommError < Exception",
              "exception hierarchy changed: BufferEmptyError must derive from DataError, DataError from PycommError", hierarchy=h)


@rule(P, "D8.2", "T-WRAP", floor=8)
def d8_2(ctx):
    """Every public encode/decode override repeats the wrapping (statements outside the try must be non-raising)."""
    base = ctx.model.cls(f"{DT}:DataType")
    for c in datatype_classes(ctx):
        if c is base:
            continue
        for name in ("encode", "decode"):
            fn = ctx.model.own_method(c, name)
            if fn is None:
                continue
            if name == "decode" and only_raises_notimplemented(fn.node):
                if c.name in ("EPATH", "CIPSegment"):
                    ctx.ok(ckey(fn), fn.node, "documented exemption: decoding not supported (NotImplementedError by design)")
                else:
                    ctx.violation(ckey(fn), fn.node, "decode raises NotImplementedError outside the two documented exemptions (EPATH, CIPSegment)")
                continue
            probs = wrap_problems(fn.node, _spec(name == "decode"))
            if probs:
                node, why = probs[0]
                ctx.violation(ckey(fn), node, f"{why} ({len(probs)} uncontained statement(s))",
                              statements=[f"{getattr(n, 'lineno', '?')}: {src(n).splitlines()[0][:70]}" for n, _ in probs[:12]])
            else:
                ctx.ok(ckey(fn), fn.node, "override contained like the base wrapper")
            if name == "decode":
                ctx.check(
                    _has_buffer_empty_passthrough(fn.node),
                    ckey(fn, "passthrough"),
                    fn.node,
                    "BufferEmptyError re-raised unchanged",
                    "decode override converts BufferEmptyError (must be re-raised unchanged)",
                )


def _stream_read_guards(ctx, fn):
    """Analyse _stream_read: returns dict of facts and list of (node, problem)."""
    func = fn.node
    args = [a.arg for a in func.args.args]
    if len(args) < 3:
        return None, [(func, "unexpected signature")]
    stream_p, size_p = args[1], args[2]
    read_assign = None
    for n in walk(func):
        if isinstance(n, ast.Assign) and isinstance(n.value, ast.Call) and call_name(n.value) == f"{stream_p}.read" and len(n.targets) == 1 and isinstance(n.targets[0], ast.Name):
            if n.value.args and atom_name(n.value.args[0]) == size_p:
                read_assign = n
    if read_assign is None:
        return None, [(func, f"no `<var> = {stream_p}.read({size_p})` found")]
    var = read_assign.targets[0].id
    g = ctx.cfg(func)
    rets = [n for n in g.nodes if n.kind == "stmt" and isinstance(n.ast, ast.Return) and n.ast.value is not None and atom_name(n.ast.value) == var]
    if not rets:
        return None, [(func, f"no `return {var}`")]
    tests = [n for n in g.nodes if n.kind == "test"]
    empty_t, short_t = None, None
    for t in tests:
        e = emptiness(t.ast, var)
        if e is not None:
            empty_t = (t, e)
            continue
        c = cmp_norm(t.ast)
        if c is not None:
            kind, L = c
            ln = f"len({var})"
            # len(var) < size  <=>  len - size + 1 <= 0 ; len != size
            if kind == "<=0" and L.terms == {ln: 1, size_p: -1} and L.const == 1:
                short_t = (t, True)
            elif kind == "!=0" and set(L.terms) == {ln, size_p} and L.const == 0 and L.terms[ln] == -L.terms[size_p]:
                short_t = (t, True)
            elif kind == "<=0" and L.terms == {ln: -1, size_p: 1} and L.const == 0:
                short_t = (t, False)  # len >= size is the good branch
            elif kind == "==0" and set(L.terms) == {ln, size_p} and L.const == 0 and L.terms[ln] == -L.terms[size_p]:
                short_t = (t, False)
    probs = []
    facts = {"var": var}

    def raising_branch(t, bad_branch, wanted):
        """the `bad_branch` side of test t must not reach a return of var and must raise one of `wanted`."""
        raised = set()
        stack = [s for s, lab in t.succ if lab == bad_branch]
        seen = set(stack)
        reaches_ret = False
        while stack:
            n = stack.pop()
            if n in rets:
                reaches_ret = True
            if n.kind == "stmt" and isinstance(n.ast, ast.Raise):
                raised.add(exc_name(n.ast.exc))
                continue
            for s, lab in n.succ:
                if s not in seen and lab != "exc":
                    seen.add(s)
                    stack.append(s)
        return reaches_ret, raised

    if empty_t is None:
        probs.append((func, "empty", "no emptiness test of the bytes just read: an empty read is returned instead of raising BufferEmptyError"))
    else:
        t, true_means_empty = empty_t
        reaches, raised = raising_branch(t, True if true_means_empty else False, {"BufferEmptyError"})
        facts["empty_test"] = src(t.ast)
        facts["empty_raises"] = sorted(x or "?" for x in raised)
        if reaches or raised != {"BufferEmptyError"}:
            probs.append((t.ast, "empty", f"empty read does not (only) raise BufferEmptyError: raises {sorted(map(str, raised))}, reaches return={reaches}"))
        for r in rets:
            if not g.branch_dominates(t, (not true_means_empty), r):
                probs.append((r.ast, "empty", "a path returns the data without passing the emptiness test"))
    if short_t is None:
        probs.append((func, "short", f"no test rejecting a read shorter than `{size_p}`: a fixed-width value can be produced from fewer bytes than its width"))
    else:
        t, true_means_short = short_t
        reaches, raised = raising_branch(t, True if true_means_short else False, {"DataError"})
        facts["short_test"] = src(t.ast)
        facts["short_raises"] = sorted(x or "?" for x in raised)
        if reaches or not raised or not raised <= {"DataError"}:
            probs.append((t.ast, "short", f"short read does not raise DataError: raises {sorted(map(str, raised))}, reaches return={reaches}"))
        for r in rets:
            if not g.branch_dominates(t, (not true_means_short), r):
                probs.append((r.ast, "short", "a path returns the data without passing the short-read test"))
        if empty_t is not None:
            # an empty read must still be reported as BufferEmptyError: the short test's raise must lie on the non-empty side
            et, true_means_empty = empty_t
            for n in g.nodes:
                if n.kind == "stmt" and isinstance(n.ast, ast.Raise) and exc_name(n.ast.exc) == "DataError":
                    if not g.branch_dominates(et, (not true_means_empty), n):
                        probs.append((n.ast, "empty", "an empty read can reach the DataError raise before the BufferEmptyError test"))
    return facts, probs


@rule(P, "D8.3", "T-DOM", floor=3)
def d8_3(ctx):
    """_stream_read raises BufferEmptyError on an empty read and DataError on a short read; decoders read only through it."""
    base = ctx.model.cls(f"{DT}:DataType")
    fn = ctx.model.own_method(base, "_stream_read")
    if fn is None:
        ctx.undecided(f"{DT}:DataType._stream_read", base.node, "anchor vanished")
        return
    # folded on witness streams: enough bytes -> exactly `size` bytes and the stream advanced by `size`; nothing left -> BufferEmptyError;
    # fewer than `size` left -> DataError (an earlier form located the two guards by their shape and alarmed when they were inverted)
    from ..miniinterp import Obj, Stream, run_function

    node = fn.node if hasattr(fn, "node") else fn
    ps = [a.arg for a in node.args.args]
    for label, data, skip, size, want in (("4 of 4 bytes", b"abcd", 0, 4, ("return", b"abcd")), ("2 of 4 bytes", b"abcd", 0, 2, ("return", b"ab")), ("the last 2 of 4 bytes", b"abcd", 2, 2, ("return", b"cd")), ("1 of 1 byte", b"z", 0, 1, ("return", b"z")),
                                          ("an empty stream", b"", 0, 2, ("raise", "BufferEmptyError")), ("a stream read to its end", b"abcd", 4, 1, ("raise", "BufferEmptyError")), ("1 byte left of 2", b"a", 0, 2, ("raise", "DataError")),
                                          ("3 bytes left of 4", b"abcd", 1, 4, ("raise", "DataError")), ("7 bytes left of 8", b"abcdefg", 0, 8, ("raise", "DataError")),
                                          ("the rest (-1) of a stream with 3 bytes left", b"xabc", 1, -1, ("return", b"abc")), ("the rest (-1) of an exhausted stream", b"abc", 3, -1, ("raise", "BufferEmptyError")),
                                          ("the rest (-1) of an empty stream", b"", 0, -1, ("raise", "BufferEmptyError")), ("0 bytes of an exhausted stream", b"abc", 3, 0, ("raise", "BufferEmptyError"))):
        st = Stream(data)
        st.read(skip)
        kind, res = run_function(ctx, base.module, node, {ps[0]: Obj(_ci=base, _is_class=True), ps[1]: st, ps[2]: size}, deep=False)
        role = "empty" if want == ("raise", "BufferEmptyError") else "short" if want[0] == "raise" else "data"
        key = ckey(fn, f"{role}:{label}")
        if kind == "unknown":
            ctx.undecided(key, node, f"_stream_read not foldable on {label}: {res}")
            continue
        res = bytes(res) if isinstance(res, bytearray) else res
        ok = (kind, res) == want and (want[0] == "raise" or st.pos == (skip + size if size >= 0 else len(data)))
        ctx.check(ok, key, node, f"{label}: {want[0]} {want[1]!r}", f"_stream_read of {size} byte(s) from {label} gives {kind} {res!r} (stream at {st.pos}); expected {want[0]} {want[1]!r}: "
                  + ("an exhausted buffer must be BufferEmptyError (it ends unbounded arrays)" if role == "empty" else "a fixed-width value must not be produced from fewer bytes than its width" if role == "short" else "the bytes asked for"))
    # raw reads inside decoders of the anchored files
    for c in datatype_classes(ctx):
        if c.module.name not in (DT, CT):
            continue
        for mname in ("_decode", "decode", "_decode_all"):
            m = ctx.model.own_method(c, mname)
            if m is None:
                continue
            for call in walk(m.node):
                if not (isinstance(call, ast.Call) and isinstance(call.func, ast.Attribute) and call.func.attr == "read"):
                    continue
                recv = attr_path(call.func.value)
                if recv in ("cls", "self"):
                    continue
                par = getattr(call, "_parent", None)
                # accepted consumers: `.read(1)[0]` (IndexError on empty -> wrapped) and operands of a nested `T.decode(...)`
                accepted = None
                if isinstance(par, ast.Expr):
                    accepted = "result discarded (skips padding inside a local buffer; produces no value)"
                if isinstance(par, ast.Subscript) and par.value is call and isinstance(par.slice, ast.Constant):
                    accepted = "indexed immediately (IndexError on a short read is wrapped)"
                p = par
                while p is not None and p is not m.node and accepted is None:
                    if isinstance(p, ast.Call) and isinstance(p.func, ast.Attribute) and p.func.attr == "decode" and p is not call:
                        accepted = "operand of a nested decode that re-validates its length prefix through _stream_read"
                    p = getattr(p, "_parent", None)
                key = ckey(m, f"raw-read:{src(call)}")
                if accepted:
                    ctx.ok(key, call, accepted)
                else:
                    ctx.violation(key, call, f"`{src(call)}` bypasses _stream_read: truncated input is accepted silently", consumer=src(par)[:80] if par is not None else None)


@rule(P, "D8.4", "T-WITNESS", floor=3)
def d8_4(ctx):
    """Unbounded arrays: elements are decoded from the caller's stream until it is empty at an element boundary - that ends the
    array and the elements decoded so far are returned; a buffer that ends inside an element is malformed (DataError), never a
    shorter array; an empty buffer is the empty array.  Decided by folding the generated Array class with element markers of one
    and two bytes (D8.10: whole number of elements, cut inside an element, empty).  An earlier form required a `break` inside
    `except BufferEmptyError` within a `while True` and alarmed when the `try` was wrapped around the loop instead."""
    from .driver import _array_rule

    _array_rule(ctx)
    ctx.assume("zero-width element types cannot be excluded statically for user-built unbounded arrays")


@rule(P, "D8.5", "T-WHO", floor=2)
def d8_5(ctx):
    """Private _encode/_decode are reached only from a contained public wrapper or another private codec method."""
    n = 0
    for fi in ctx.model.all_functions():
        for call in walk(fi.node):
            if not (isinstance(call, ast.Call) and isinstance(call.func, ast.Attribute) and call.func.attr in ("_encode", "_decode")):
                continue
            ef = enclosing_func(call)
            if ef is not fi.node:
                continue
            n += 1
            key = ckey(fi, f"calls:{src(call.func)}")
            if fi.node.name in ("_encode", "_decode"):
                ctx.ok(key, call, "called from a private codec method (wrapped by its public caller)")
                continue
            if fi.node.name in ("encode", "decode"):
                inside = False
                child, p = call, getattr(call, "_parent", None)
                while p is not None and p is not fi.node:
                    if isinstance(p, ast.Try) and any(child is st for st in p.body):
                        inside = True
                    child, p = p, getattr(p, "_parent", None)
                ctx.check(inside, key, call, "called inside the wrapper's try", "private codec method called outside the wrapper's try")
                continue
            ctx.violation(key, call, f"private codec method called from {fi.qualname}, bypassing the DataError wrapper")


@rule(P, "D8.6", "T-DOM", floor=4)
def d8_6(ctx):
    """Too few values for a fixed array (counted in the array's own unit: bools per element for bit-string elements) and a
    partial last bit-string element raise DataError before anything is encoded - the same obligations as D6.6, owned here for
    the 'outside the domain -> DataError, never silent' clause."""
    from .C06 import d6_6

    d6_6(ctx)


@rule(P, "D8.7", "T-DEFUSE", floor=8)
def d8_7(ctx):
    """Handlers that convert failures into DataError read only names that are bound on every path into the handler (a local
    first bound inside the try body is unbound when the body fails earlier: UnboundLocalError would leave the handler)."""
    from ..guards import possibly_unbound_in_handlers

    n = 0
    for c in datatype_classes(ctx):
        for name, m in c.methods.items():
            if not any(isinstance(x, ast.ExceptHandler) for x in walk(m)):
                continue
            n += 1
            probs = possibly_unbound_in_handlers(ctx, m)
            key = ckey(f"{c.key}.{name}", "handler-names")
            if probs:
                x, h = probs[0]
                ctx.violation(key, x, f"`{x.id}` is read in the `except` handler of {c.name}.{name} but is first bound inside the try body: when the body fails before that binding the handler raises UnboundLocalError instead of DataError",
                              names=sorted({p[0].id for p in probs}))
            else:
                ctx.ok(key, m, "every name read in a handler is bound on all paths into it")


# raw operations on a decoder's input stream outside the checked primitive, each with the reason it cannot hand out a
# fixed-width value made from fewer bytes (keyed by class / function, the operation and the folded value of its arguments, never by
# line or by the spelling of the argument)
ACCEPTED_RAW_STREAM_OPS = {
    ("STRINGI", "read", (3,)): "the 3 bytes are re-decoded as a SHORT_STRING of declared length 3, which checks the length",
    ("STRINGI", "read", (1,)): "indexed with [0]: an empty result raises inside the contained decoder",
}
# structural acceptances: (a) any raw read inside the checked primitive `_stream_read` itself (empty -> BufferEmptyError, short ->
# DataError: D8.2 decides that); (b) a raw read on a name that the function has rebound, once and before the read, to a BytesIO over
# the result of `_stream_read(...)`: a private copy whose length the primitive has already checked (StructTag skips gaps this way)
ADVANCING = ("read", "seek", "readinto", "read1", "readline", "truncate", "write")


def _private_copy(fn, name, read_call):
    """`name` is rebound exactly once in `fn`, by a top-level statement before `read_call`, to BytesIO(<... _stream_read(...) ...>)."""
    binds = [n for n in walk(fn) if isinstance(n, (ast.Assign, ast.AugAssign, ast.AnnAssign, ast.For, ast.With, ast.NamedExpr)) and any(isinstance(t, ast.Name) and t.id == name and isinstance(t.ctx, ast.Store) for t in walk(n)
                                                                                                                                         if not isinstance(n, ast.For) or t in list(walk(n.target)))]
    if len(binds) != 1 or not isinstance(binds[0], ast.Assign) or binds[0] not in fn.body:
        return False
    a = binds[0]
    v = a.value
    wraps = isinstance(v, ast.Call) and call_name(v) == "BytesIO" and len(v.args) == 1 and any(isinstance(x, ast.Call) and isinstance(x.func, ast.Attribute) and x.func.attr == "_stream_read" for x in walk(v.args[0]))
    return wraps and len(a.targets) == 1 and isinstance(a.targets[0], ast.Name) and (a.end_lineno or a.lineno) < read_call.lineno


@rule(P, "D8.9", "T-WHO", floor=3)
def d8_9(ctx):
    """Who may advance a decoder's input: inside the codec classes of the anchored files only `_stream_read` (which turns an
    empty read into BufferEmptyError and a short one into DataError), a nested `T.decode(stream)` and the enumerated raw
    reads may move the stream; a `seek` / raw `read` anywhere else can step over or hand out bytes that are not there, i.e.
    produce a value from fewer bytes than its width without any error."""
    files = ("pycomm3/cip/data_types.py", "pycomm3/custom_types.py")
    n_ok = 0
    seen = set()
    for key, fi in sorted(ctx.model.functions.items()):
        rel = fi.module.relpath.replace("\\", "/")
        if rel not in files or fi.cls is None and "." not in fi.qualname:
            continue
        q = fi.qualname
        for c in walk(fi.node):
            if not (isinstance(c, ast.Call) and isinstance(c.func, ast.Attribute) and c.func.attr in ADVANCING):
                continue
            recv = c.func.value
            if not (isinstance(recv, ast.Name) and recv.id in ("stream", "buffer", "_stream", "data_stream")):
                continue
            args = tuple(ctx.folder.eval(a, fi.module) for a in c.args)
            k = (q.split(".")[0], c.func.attr, args if all(isinstance(a, int) for a in args) else (src(c),))  # (keyed by class: the reads may sit in any of its methods)
            seen.add(k)
            why = ACCEPTED_RAW_STREAM_OPS.get(k)
            if why is None and fi.node.name == "_stream_read" and c.func.attr == "read":
                why = "the checked primitive itself: empty -> BufferEmptyError, short -> DataError"
            if why is None and c.func.attr == "read" and _private_copy(fi.node, recv.id, c):
                why = "a read inside the function's private copy of the bytes `_stream_read` has already length-checked"
            if why is not None:
                n_ok += 1
                ctx.ok(ckey(fi, f"raw-stream:{c.func.attr}:{n_ok}"), c, f"accepted raw stream operation `{src(c)}`: {why}")
            else:
                ctx.violation(ckey(fi, f"raw-stream:{src(c)}"), c, f"`{src(c)}` in {q} moves the decoder's input outside `_stream_read`: bytes that are not there are skipped or handed out without BufferEmptyError / DataError "
                                                                     f"(a fixed-width value can be produced from fewer bytes than its width)")
    gone = [k for k in ACCEPTED_RAW_STREAM_OPS if k not in seen]
    # a vanished accepted instance is not an error (the code may have been tightened); it is reported in the facts
    ctx.ok(ckey(f"{DT}:DataType", "raw-stream-census"), None, f"{n_ok} raw stream operation(s), all enumerated", no_longer_present=[f"{k_[0]}: {k_[1]}{k_[2]}" for k_ in gone])
