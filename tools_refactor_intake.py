#!/usr/bin/env python3
"""Developer helper (not used by any check): verify a sub-agent's behaviour-preserving refactors in a fresh scratch
worktree (patch applies, offline suite passes, the agent's differential script prints identical output before and after)
and keep each as /verif/refactors/<prop>-r<n>/ (patch.diff, diff_check.py, meta.json).  Then run every property's rules on
the refactored tree (in-memory overlay) and print what they say: anything but silence is a false alarm to be corrected.

usage: tools_refactor_intake.py <agent worktree> <property id>
"""
import json
import os
import shutil
import subprocess
import sys

PY = "/venv/bin/python"


def run(cmd, cwd, env=None, timeout=900):
    e = dict(os.environ)
    e.update(env or {})
    r = subprocess.run(cmd, cwd=cwd, env=e, capture_output=True, text=True, timeout=timeout, shell=isinstance(cmd, str))
    return r.returncode, (r.stdout + r.stderr)


def main():
    wt, prop = sys.argv[1], sys.argv[2]
    kept = []
    for n in ("1", "2", "3"):
        src = os.path.join(wt, "refactors", n)
        if not all(os.path.exists(os.path.join(src, f)) for f in ("patch.diff", "diff_check.py")):
            print(f"[{n}] missing files")
            continue
        rid = f"{prop}-{os.environ.get('REFACTOR_ROUND', 'r')}{n}"
        # the agent's own worktree is a clean checkout of /repo HEAD (its scripts assert that path): verify there
        rc, out = run("git status --porcelain -- pycomm3", wt)
        if out.strip():
            run("git checkout -- pycomm3", wt)
        head_wt = run("git rev-parse HEAD", wt)[1].strip()
        head_repo = run("git -C /repo rev-parse HEAD", "/")[1].strip()
        if head_wt != head_repo:
            print(f"[{n}] worktree is at {head_wt[:8]}, /repo at {head_repo[:8]}")
            continue
        env = {"PYTHONPATH": wt}
        script = os.path.join("refactors", n, "diff_check.py")
        try:
            rc0, out0 = run([PY, script], wt, env)
            rc, out = run(["git", "apply", os.path.join(src, "patch.diff")], wt)
            if rc:
                print(f"[{n}] patch does not apply: {out[:200]}")
                continue
            rc1, out1 = run([PY, script], wt, env)
            rc2, out2 = run([PY, "-m", "pytest", "-q", "-p", "no:cacheprovider", "tests/offline"], wt, env)
            tail = out2.strip().splitlines()[-1] if out2.strip() else ""
            same = rc0 == rc1 == 0 and out0 == out1 and len(out0) > 50
            print(f"[{n}] diff_check identical: {same} ({len(out0)} bytes of transcript, exits {rc0}/{rc1}); suite: {tail}")
            if not (same and "366 passed" in tail):
                print(f"[{n}] REJECTED", (out0[-300:] if rc0 else ""))
                continue
            dst = os.path.join("/verif/refactors", rid)
            os.makedirs(dst, exist_ok=True)
            for f in ("patch.diff", "diff_check.py", "meta.json"):
                if os.path.exists(os.path.join(src, f)):
                    shutil.copy(os.path.join(src, f), os.path.join(dst, f))
            kept.append(rid)
            try:
                meta = json.load(open(os.path.join(dst, "meta.json")))
                print(f"[{n}] KEPT {dst}: {meta.get('kind')} - {meta.get('title')}")
            except Exception:
                print(f"[{n}] KEPT {dst}")
        finally:
            run("git checkout -- pycomm3", wt)
    # what do the checks say?
    sys.path.insert(0, "/verif")
    from sa import rules  # noqa: F401
    from sa.framework import UNDECIDED, VIOLATION, run_property
    from sa.selftest import _baseline_keys, apply_patch_overlay

    for rid in kept:
        ov = apply_patch_overlay("/repo", os.path.join("/verif/refactors", rid, "patch.diff"))
        if ov is None:
            print(rid, "patch no longer applies")
            continue
        alarms = []
        for p in sorted(rules.MODULES):
            base = _baseline_keys(p, "/repo")
            _, results, _ = run_property(p, "/repo", "quick", overlay=ov)
            for r in results:
                if (r.verdict == VIOLATION and (r.rule, r.construct) not in base) or r.verdict == UNDECIDED:
                    alarms.append((p, r.rule, r.verdict, r.construct, r.what[:200]))
        print(rid, "SILENT on all 19 properties" if not alarms else f"FALSE ALARMS: {len(alarms)}")
        for a in alarms[:12]:
            print("    ", a)


if __name__ == "__main__":
    sys.exit(main())
