"""Helpers shared by the property rule modules."""
from __future__ import annotations

import ast
from typing import List, Optional

from ..astutil import attr_path, call_name, walk
from ..model import AnalysisError, ClassInfo, FuncInfo

DT = "pycomm3.cip.data_types"
CT = "pycomm3.custom_types"
LX = "pycomm3.logix_driver"
CD = "pycomm3.cip_driver"
SLC = "pycomm3.slc_driver"
PB = "pycomm3.packets.base"
PE = "pycomm3.packets.ethernetip"
PC = "pycomm3.packets.cip"
PL = "pycomm3.packets.logix"
PU = "pycomm3.packets.util"


def ckey(fi_or_key, role: Optional[str] = None) -> str:
    k = fi_or_key.key if hasattr(fi_or_key, "key") else fi_or_key
    return f"{k}#{role}" if role else k


def datatype_classes(ctx) -> List[ClassInfo]:
    base = ctx.model.cls(f"{DT}:DataType")
    return [c for c in ctx.model.classes.values() if base in c.mro()]


def class_methods(ctx, classes, names) -> List[FuncInfo]:
    out = []
    for c in classes:
        for n in names:
            fn = ctx.model.own_method(c, n)
            if fn is not None:
                out.append(fn)
    return out


def is_super_call(call: ast.Call, method: Optional[str] = None) -> bool:
    f = call.func
    if isinstance(f, ast.Attribute) and isinstance(f.value, ast.Call) and isinstance(f.value.func, ast.Name) and f.value.func.id == "super":
        return method is None or f.attr == method
    return False


def is_self_call(call: ast.Call, method: Optional[str] = None) -> bool:
    f = call.func
    if isinstance(f, ast.Attribute) and isinstance(f.value, ast.Name) and f.value.id in ("self", "cls"):
        return method is None or f.attr == method
    return False


def only_raises_notimplemented(func) -> bool:
    body = [s for s in func.body if not (isinstance(s, ast.Expr) and isinstance(s.value, ast.Constant))]
    return len(body) == 1 and isinstance(body[0], ast.Raise) and body[0].exc is not None and (
        call_name(body[0].exc) if isinstance(body[0].exc, ast.Call) else attr_path(body[0].exc)
    ) == "NotImplementedError"


def find_calls(func, pred):
    return [c for c in walk(func) if isinstance(c, ast.Call) and pred(c)]


def require(cond, msg):
    if not cond:
        raise AnalysisError(msg)


def const_int(ctx, node, module, cls=None, func=None):
    v = ctx.folder.eval(node, module, cls=cls, func=func)
    return v if isinstance(v, int) and not isinstance(v, bool) else None
