"""A tiny interpreter over the syntax tree for *witness evaluation* of small, pure helper code.

Rules use it to fold a short function (table look-ups, string surgery, post-processing of a decoded dict) on a finite
set of representative inputs chosen from the code's own tables and regexes.  Nothing of the repository is imported or
executed: expressions go through the constant folder (sa/consteval.py) with an environment, statements are walked
here.  Supported: assignment (names, tuple targets, subscript stores into environment dicts/lists), augmented
assignment, if/elif/else, for over a folded finite sequence (with break/continue), return, raise, pass, try (body only;
a raise inside reports the raise), calls of module-level functions of the same module (inlined, depth-bounded), and a
caller-supplied hook for calls the folder does not know (e.g. `super()._decode(stream)` -> a witness dict).
Anything else makes the result UNKNOWN - never a guess."""
from __future__ import annotations

import ast
import copy
from typing import Callable, Optional

from .astutil import clone as _clone
from .consteval import UNKNOWN, ClassRef, FuncRef, Instance


class _Return(Exception):
    def __init__(self, value):
        self.value = value


class _Raise(Exception):
    def __init__(self, name):
        self.name = name


class _Unknown(Exception):
    def __init__(self, why):
        self.why = why


class _Break(Exception):
    pass


class _Continue(Exception):
    pass


_PURE_METHODS = {"__getitem__", "__contains__", "__len__", "join", "get", "items", "keys", "values", "upper", "lower", "encode", "decode", "replace", "split", "rsplit", "partition", "rpartition", "strip", "lstrip", "rstrip",
                 "startswith", "endswith", "isdigit", "isnumeric", "find", "rfind", "count", "index", "hex", "format", "zfill", "removeprefix", "removesuffix", "copy",
                 "append", "extend", "update", "pop", "insert", "clear", "setdefault", "isalpha", "isupper", "islower", "title"}
_LOG_METHODS = {"debug", "info", "warning", "warn", "error", "exception", "critical", "fatal", "verbose", "log"}


def _is_logging_call(receiver_src: str, method: str) -> bool:
    """`<...>log.info(...)`, `self.__log.verbose(...)`, `logger.debug(...)`, `logging.error(...)`: a logger-named receiver (its last
    component is log / logger / logging, with or without leading underscores or a class-name mangle) and a logging method."""
    import re as _re

    last = receiver_src.split(".")[-1]
    return method in _LOG_METHODS and bool(_re.fullmatch(r"_*(?:[A-Za-z0-9]+__)?_*(?:log|logger|logging|LOG|LOGGER)", last))


_MUTATORS = {"append", "extend", "update", "pop", "insert", "clear", "setdefault", "add", "remove", "discard", "sort", "reverse", "popitem", "appendleft", "popleft"}


def _chain_from_iterable(x):
    import itertools

    return list(itertools.chain.from_iterable(x))


def _zip_longest(*a):
    import itertools

    return list(itertools.zip_longest(*a))


def _next(seq, *default):
    # generators handed over as lists: next() consumes the head
    if isinstance(seq, LazyGen):
        try:
            return next(seq)
        except StopIteration:
            if default:
                return default[0]
            raise _Raise("StopIteration")
    if not isinstance(seq, list):
        raise _Unknown("next() of a non-sequence witness")
    if seq:
        return seq.pop(0)
    if default:
        return default[0]
    raise _Raise("StopIteration")


def _accumulate(x, *a):
    import itertools

    return list(itertools.accumulate(list(x), *a))


def _chain(*a):
    import itertools

    return list(itertools.chain(*[list(x) for x in a]))


def _islice(x, *a):
    import itertools

    return list(itertools.islice(list(x), *a))


def _tee(x, n=2):
    items = list(x)
    return tuple(list(items) for _ in range(n))


_PURE_BUILTINS = {"accumulate": _accumulate, "chain": _chain, "islice": _islice, "tee": _tee, "zip_longest": _zip_longest, "next": _next, "enumerate": lambda *a: list(enumerate(*a)), "zip": lambda *a: list(zip(*a)), "range": lambda *a: list(range(*a)), "sorted": sorted, "reversed": lambda x: list(reversed(x)),
                  "sum": sum, "any": any, "all": all, "bin": bin, "hex": hex, "oct": oct, "chr": chr, "ord": ord, "divmod": divmod, "pow": pow, "int": int, "float": float, "str": str, "len": len, "bool": bool, "min": min, "max": max, "abs": abs, "round": round, "list": list, "tuple": tuple, "bytes": bytes, "set": set, "dict": dict, "bytearray": bytearray, "slice": slice}


def _has_unknown(v, depth=0):
    if v is UNKNOWN:
        return True
    if depth > 4:
        return False
    if isinstance(v, (tuple, list, set, frozenset)):
        return any(_has_unknown(x, depth + 1) for x in v)
    if isinstance(v, dict):
        return any(_has_unknown(x, depth + 1) for x in v.values())
    return False


class _ChildEnv(dict):
    """Scope of a comprehension / generator: its own targets are local, every other name is read from (and written to) the
    enclosing environment, which is shared by reference."""

    def __init__(self, parent):
        super().__init__()
        self.parent = parent

    def __missing__(self, k):
        return self.parent[k]

    def __contains__(self, k):
        return dict.__contains__(self, k) or k in self.parent

    def get(self, k, default=None):
        if dict.__contains__(self, k):
            return dict.__getitem__(self, k)
        return self.parent.get(k, default)

    def items(self):
        merged = dict(self.parent.items())
        merged.update(dict.items(self))
        return merged.items()

    def keys(self):
        return dict(self.items()).keys()

    def __iter__(self):
        return iter(dict(self.items()))

    def __len__(self):
        return len(dict(self.items()))


class LazyGen:
    """A generator expression: its first iterable is evaluated where the expression stands, everything else when the generator
    is consumed, in the environment as it is then (the environment is shared by reference) - so a name rebound between the
    two points is seen with its new value, as in Python."""

    def __init__(self, produce):
        self._produce, self._it = produce, None

    def __iter__(self):
        if self._it is None:
            self._it = self._guarded()
        return self._it

    def _guarded(self):
        # an exception of the interpreted generator body surfaces where the generator is consumed; it is the code's
        # exception (not a failure of whoever iterates), so it travels as _Raise
        try:
            yield from self._produce()
        except (ArithmeticError, TypeError, ValueError, KeyError, IndexError, AttributeError) as err:
            raise _Raise(type(err).__name__)

    def __next__(self):
        return next(iter(self))


class _SuperRef:
    """super() inside a class method: the receiver class and the class the method search continues at."""

    def __init__(self, ci, start):
        self.ci, self.start = ci, start


class LocalFunc:
    def __init__(self, node, env):
        self.node, self.env = node, env


class BoundMethod:
    def __init__(self, me, dc, m):
        self.me, self.dc, self.m = me, dc, m


class PyFunc:
    """A witness callable supplied by a rule (a marker for a method or function of the environment): called with the evaluated
    arguments wherever the folded code calls the value - whatever the syntax of the call (`self.m(x)`, `getattr(self, name)(x)`,
    a table of bound methods, a local alias)."""

    def __init__(self, fn, name="<witness>"):
        self.fn, self.name = fn, name

    def __repr__(self):
        return f"PyFunc({self.name})"


def _is_data_type(ci):
    return any(k.name in ("DataType", "EnumMap", "Exception", "BaseException") for k in ci.mro()) or any(getattr(b, "id", None) in ("Exception", "NamedTuple") for k in ci.mro() for b in k.node.bases)


class Bound:
    """`T.decode` / `T.encode` of an elementary type taken as a value (unpack_func = TYPES[x].decode)."""

    def __init__(self, ci, name):
        self.ci, self.name = ci, name


def codec_apply(ctx, ci, meth, args):
    """decode/encode of an elementary fixed-format type on constants; UNKNOWN for anything else."""
    import struct

    fmt = ctx.folder.elementary_format(ci)
    dc, _ = ci.lookup(meth)
    ec, _ = ci.lookup("_" + meth)
    if not fmt or dc is None or dc.name != "DataType" or ec is None or ec.name != "ElementaryDataType" or len(args) != 1:
        return UNKNOWN
    size = struct.calcsize(fmt)
    if meth == "decode":
        data = args[0]
        if isinstance(data, Stream):
            chunk = data.read(size)
        elif isinstance(data, (bytes, bytearray)):
            chunk = bytes(data[:size])
        else:
            return UNKNOWN
        if len(chunk) < size:
            raise _Raise("BufferEmptyError" if not chunk else "DataError")
        return struct.unpack(fmt, chunk)[0]
    if isinstance(args[0], (int, float)) and not isinstance(args[0], bool):
        try:
            return struct.pack(fmt, args[0])
        except struct.error:
            raise _Raise("DataError")
    raise _Raise("DataError")


class _Buffer:
    def __init__(self, n):
        self.nbytes = n


class Stream:
    """Witness for io.BytesIO."""

    def __init__(self, data=b""):
        self.data, self.pos = bytes(data), 0

    def read(self, n=-1):
        if n is None or n < 0:
            n = len(self.data) - self.pos
        chunk = self.data[self.pos:self.pos + n]
        self.pos += len(chunk)
        return chunk

    def tell(self):
        return self.pos

    def seek(self, pos, whence=0):
        if not isinstance(pos, int) or whence not in (0, 1, 2):
            raise _Unknown("stream.seek() with a non-integer position")
        new = pos if whence == 0 else self.pos + pos if whence == 1 else len(self.data) + pos
        if new < 0:
            raise _Raise("ValueError")
        self.pos = new
        return new

    def getvalue(self):
        return self.data

    def getbuffer(self):
        return _Buffer(len(self.data))


class Obj:
    """A witness object: attribute loads / stores on it are interpreted (`self.value = ...`)."""

    def __init__(self, **attrs):
        self.__dict__.update(attrs)

    def __repr__(self):
        return f"Obj({self.__dict__})"

    def __bool__(self):
        return bool(self.__dict__.get("_truth", True))


class Interp:
    def __init__(self, ctx, module, call_hook: Optional[Callable] = None, max_depth=6, cls=None):
        self.ctx, self.module, self.hook, self.max_depth, self.cls = ctx, module, call_hook, max_depth, cls
        self.steps = 0
        self.me = None  # the witness instance whose method is being folded (object mode, see new_object / run_method)
        self.oo_depth = 0

    # ------------------------------------------------------------------ expressions
    def ev(self, e, env, depth=0):
        pre = self.__dict__.setdefault("_pre", {})
        fr = self.__dict__.get("_frame", 0)  # (argument values are cached per activation: a recursive call evaluates the same nodes again)
        if (id(e), fr) in pre:
            v = pre[(id(e), fr)]
            if isinstance(v, _Unknown):
                raise v
            return v
        if isinstance(e, ast.Call):
            # Python evaluates the arguments of a call exactly once; several handlers below may look at them, so they are
            # evaluated here once (side effects such as stream reads must not be repeated) unless the folder decides the call
            mine = []

            def precache():
                for a in list(e.args) + [k.value for k in e.keywords]:
                    if isinstance(a, ast.Starred) or (id(a), fr) in pre:
                        continue
                    try:
                        pre[(id(a), fr)] = self._ev(a, env, depth)
                    except _Unknown as u:
                        pre[(id(a), fr)] = u
                    mine.append((id(a), fr))

            hooked = self.__dict__.setdefault("_hooked", set())
            try:
                if self.hook is not None and id(e) not in hooked:
                    # the rule's witnesses come first (a marker for a constructor the folder could also fold)
                    precache()
                    try:
                        r = self.hook(e, env, self)
                    except (_Raise, _Unknown, _Return, _Break, _Continue):
                        raise
                    except Exception as err:  # a failure inside the rule's witness code is the checker's, not the code's
                        raise _Unknown(f"witness hook failed on {ast.unparse(e)[:60]}: {err!r}")
                    if r is not UNKNOWN:
                        return r
                    hooked.add(id(e))
                    mine.append(("hooked", id(e)))
                helper = False
                if self.hook is not None and isinstance(e.func, ast.Name) and e.func.id not in env:
                    # a helper function of the package is interpreted here (so that the rule's witnesses see the calls inside
                    # it), not by the constant folder
                    ref = self.ctx.folder.eval(e.func, self.module)
                    helper = isinstance(ref, FuncRef) and isinstance(getattr(ref, "node", None), ast.FunctionDef)
                    if helper:
                        self.__dict__.setdefault("_nofold", set()).add(id(e))
                mutator = isinstance(e.func, ast.Attribute) and e.func.attr in _MUTATORS  # must act on the environment's own object
                if not helper and not mutator and not self._mentions_obj(e, env) and not any(isinstance(x, ast.NamedExpr) for x in ast.walk(e)):
                    v0 = self.ctx.folder.eval(e, self.module, env=env)
                    if isinstance(v0, frozenset) and isinstance(e.func, ast.Name) and e.func.id == "set":
                        return set(v0)  # a fresh mutable set (the folder's constants are immutable)
                    if v0 is not UNKNOWN:
                        return v0
                precache()
                f_ = e.func
                if isinstance(f_, ast.Attribute) and any(isinstance(x, ast.Call) for x in ast.walk(f_.value)) \
                        and not any(isinstance(x, ast.Call) and isinstance(x.func, ast.Name) and x.func.id == "super" for x in ast.walk(f_.value)):
                    # a method call on the result of a call: the receiver is evaluated exactly once, bound to a temporary name, and
                    # the call is dispatched on that name (hooks and handlers then see an ordinary `name.method(...)`)
                    rv = self.ev(f_.value, env, depth)  # (not foldable -> the whole call is not foldable: the receiver is never evaluated twice)
                    if rv is not UNKNOWN:
                        tmp = f"__rcv{id(e)}"
                        env2 = _ChildEnv(env)
                        dict.__setitem__(env2, tmp, rv)
                        e2 = ast.copy_location(ast.Call(func=ast.copy_location(ast.Attribute(value=ast.copy_location(ast.Name(id=tmp, ctx=ast.Load()), f_.value), attr=f_.attr, ctx=ast.Load()), f_), args=e.args, keywords=e.keywords), e)
                        self.__dict__.setdefault("_keep", []).append(e2)  # (ids of synthetic nodes must stay unique while cached)
                        return self.ev(e2, env2, depth)
                return self._ev(e, env, depth)
            finally:
                for i in mine:
                    if i[0] == "hooked":
                        hooked.discard(i[1])
                    else:
                        pre.pop(i, None)
        return self._ev(e, env, depth)

    def _holds_pyfunc(self, f, env, depth):
        """`a.b.c` (no calls inside) names a witness callable stored on a witness object."""
        try:
            base = self.ev(f.value, env, depth)
        except (_Unknown, AttributeError):
            return False
        return isinstance(base, Obj) and isinstance(base.__dict__.get(f.attr), PyFunc)

    def _factory_class(self, fi):
        """A class factory: a module-level function whose body defines one class and returns it (Struct, Array, StructTag, ...)."""
        body = fi.node.body
        cds = [s_ for s_ in body if isinstance(s_, ast.ClassDef)]
        if len(cds) != 1 or not body or not isinstance(body[-1], ast.Return):
            return None
        rv = body[-1].value
        returns_class = isinstance(rv, ast.Name) and rv.id == cds[0].name
        returns_instance = isinstance(rv, ast.Call) and isinstance(rv.func, ast.Name) and rv.func.id == cds[0].name  # e.g. n_bytes: `return BYTES(name)`
        if not (returns_class or returns_instance):
            return None
        ci = self.ctx.model.classes.get(f"{fi.module.name}:{fi.qualname}.{cds[0].name}")
        return (cds[0], ci) if ci is not None else None

    def _fold_factory(self, fi, fc, args, kwargs, depth):
        """The class a factory call returns, as a class witness: the factory's parameters are bound, the statements ahead of the
        class definition are folded, and the class attributes are evaluated in that scope."""
        cd, ci = fc
        a = fi.node.args
        other = self if fi.module is self.module else Interp(self.ctx, fi.module, self.hook, self.max_depth, self.cls)
        params = [x.arg for x in a.args]
        env2 = dict(zip(params, args))
        extra = list(args[len(params):])
        if extra and a.vararg is None:
            raise TypeError("too many positional arguments")
        if a.vararg is not None:
            env2[a.vararg.arg] = tuple(extra)
        names = set(params) | {x.arg for x in a.kwonlyargs}
        for k_, v_ in kwargs.items():
            if k_ in names:
                if k_ in env2:
                    raise TypeError("multiple values for an argument")
                env2[k_] = v_
            elif a.kwarg is None:
                raise TypeError("unexpected keyword argument")
        if a.kwarg is not None:
            env2[a.kwarg.arg] = {k_: v_ for k_, v_ in kwargs.items() if k_ not in names}
        for p_, d_ in zip(params[len(params) - len(a.defaults):], a.defaults):
            if p_ not in env2:
                env2[p_] = other.ev(d_, {}, depth)
        for p_, d_ in zip(a.kwonlyargs, a.kw_defaults):
            if p_.arg not in env2 and d_ is not None:
                env2[p_.arg] = other.ev(d_, {}, depth)
        missing = [n_ for n_ in list(params) + [x.arg for x in a.kwonlyargs] if n_ not in env2]
        if missing:
            raise TypeError("missing argument")
        for st in fi.node.body:
            if st is cd:
                break
            if isinstance(st, ast.Expr) and isinstance(st.value, ast.Constant):
                continue
            other._stmt(st, env2, depth + 1)
        attrs = {name: other.ev(expr, env2, depth + 1) for name, expr in ci.attrs.items()}
        # what the class inherits from bases that are themselves made by a factory (StructTag derives from the Struct of its members)
        for b in cd.bases:
            try:
                bv = other.ev(b, env2, depth + 1)
            except _Unknown:
                continue
            if isinstance(bv, Obj) and bv.__dict__.get("_is_class"):
                for k_, v_ in bv.__dict__.items():
                    if k_ not in ("_ci", "_is_class"):
                        attrs.setdefault(k_, v_)
        rv = fi.node.body[-1].value
        if isinstance(rv, ast.Call):
            # the factory returns an instance of the class: class attributes stay reachable through the instance
            inst = Obj(_ci=ci, **attrs)
            inst.__dict__["_class_witness"] = Obj(_ci=ci, _is_class=True, **attrs)
            a2, k2 = other._call_args(rv, env2, depth + 1)
            dc, m = ci.lookup("__init__")
            if isinstance(m, ast.FunctionDef):
                other._invoke(dc, m, inst, a2, k2, depth + 1)
            return inst
        return Obj(_ci=ci, _is_class=True, **attrs)

    def _class_attr_dynamic(self, ci, attr, depth=0):
        """A class attribute that a base made by a class factory provides (`class Revision(Struct(USINT("major"), ...))`: the
        members live in the factory's scope).  UNKNOWN when no such base provides it."""
        cache = self.ctx.__dict__.setdefault("_dyn_class_bases", {})
        for k in ci.mro():
            for b in getattr(k.node, "bases", []):
                if not isinstance(b, ast.Call):
                    continue
                if id(b) not in cache:
                    try:
                        cache[id(b)] = Interp(self.ctx, k.module, None, self.max_depth).ev(b, {}, 0)
                    except (_Unknown, _Raise, ArithmeticError, TypeError, ValueError, KeyError, IndexError, AttributeError):
                        cache[id(b)] = None
                w = cache[id(b)]
                if isinstance(w, Obj) and attr in w.__dict__ and attr not in ("_ci", "_is_class"):
                    return w.__dict__[attr]
        return UNKNOWN

    def _as_obj(self, inst, depth=0):
        """The witness instance a construction record `C(args)` stands for (its constructor chain folded on the recorded arguments)."""
        o = inst.__dict__.get("_obj")
        if o is None:
            o = self.construct(inst.ci, list(inst.args), dict(inst.kwargs), depth)
            inst.__dict__["_obj"] = o
        return o

    def _obj_attr(self, o, attr, depth):
        if attr in o.__dict__:
            return o.__dict__[attr]
        ci = o.__dict__.get("_ci")
        if ci is not None:
            dc, m = ci.lookup(attr)
            if isinstance(m, ast.FunctionDef):
                if any(getattr(d, "id", None) == "property" for d in m.decorator_list):
                    return self._invoke(dc, m, o, [], {}, depth)
                return BoundMethod(o, dc, m)
            if m is not None:
                v = self.ctx.folder.eval(m, dc.module, dc)  # (evaluated in the class body's scope: `size = calcsize(_format)`)
                if v is not UNKNOWN:
                    return v
                v = self._class_attr_dynamic(ci, attr, depth)
                if v is not UNKNOWN:
                    return v
                raise _Unknown(f"class attribute {ci.name}.{attr} not foldable")
            raise AttributeError(attr)  # the class family does not provide it: what the interpreted code would raise
        raise _Unknown(f"attribute .{attr} has no witness value")

    @staticmethod
    def _bind_params(node, args, kwargs, ev_default):
        """Bind positional and keyword arguments to the parameters of a plain function; None when they do not fit in a way followed here."""
        a = node.args
        params = [x.arg for x in a.posonlyargs + a.args]
        kwonly = [x.arg for x in a.kwonlyargs]
        env2 = {}
        if len(args) > len(params):
            if a.vararg is None:
                raise TypeError("too many positional arguments")
            env2[a.vararg.arg] = tuple(args[len(params):])
            args = args[:len(params)]
        elif a.vararg is not None:
            env2[a.vararg.arg] = ()
        env2.update(zip(params, args))
        extra = {}
        for k, v in kwargs.items():
            if k in env2 and k in params:
                raise TypeError(f"multiple values for argument {k}")
            if k in params or k in kwonly:
                env2[k] = v
            else:
                extra[k] = v
        if a.kwarg is not None:
            env2[a.kwarg.arg] = extra
        elif extra:
            raise TypeError("unexpected keyword argument")
        for p_, d_ in zip(params[len(params) - len(a.defaults):], a.defaults):
            if p_ not in env2:
                env2[p_] = ev_default(d_)
        for p_, d_ in zip(kwonly, a.kw_defaults):
            if p_ not in env2 and d_ is not None:
                env2[p_] = ev_default(d_)
        if any(p_ not in env2 for p_ in params + kwonly):
            raise TypeError("missing argument")
        return env2

    def _invoke(self, dc, m, me, args, kwargs, depth):
        """Fold method m (defined in class dc) on the witness instance `me`."""
        if self.oo_depth > 24:
            raise _Unknown("method nesting too deep")
        decos = {getattr(d, "id", None) for d in m.decorator_list}
        params = [a.arg for a in m.args.args]
        env2 = {}
        if "staticmethod" in decos:
            pass
        elif "classmethod" in decos:
            # a witness that stands for the class itself (a generated class with witness attributes) stays the receiver
            env2[params[0]] = me if me.__dict__.get("_is_class") else me.__dict__.get("_class_witness") or ClassRef(me.__dict__["_ci"])
            params = params[1:]
        elif decos - {"property"}:
            raise _Unknown(f"decorated method {m.name}")
        else:
            env2[params[0]] = me
            params = params[1:]
        args = list(args)
        if len(args) > len(params):
            if m.args.vararg is None:
                raise TypeError("too many positional arguments")
            env2[m.args.vararg.arg] = tuple(args[len(params):])
            args = args[:len(params)]
        elif m.args.vararg is not None:
            env2[m.args.vararg.arg] = ()
        env2.update(zip(params, args))
        extra = {}
        names = set(params) | {a.arg for a in m.args.kwonlyargs}
        for k, v in kwargs.items():
            if k in names:
                env2[k] = v
            else:
                extra[k] = v
        if m.args.kwarg is not None:
            env2[m.args.kwarg.arg] = extra
        elif extra:
            raise TypeError("unexpected keyword argument")
        other = Interp(self.ctx, dc.module, self.hook, self.max_depth, dc)
        other.me, other.oo_depth, other.steps = me, self.oo_depth + 1, self.steps
        defaults = m.args.defaults
        allp = [a.arg for a in m.args.args]
        for p_, d_ in zip(allp[len(allp) - len(defaults):], defaults):
            if p_ not in env2:
                env2[p_] = other.ev(d_, {}, depth)
        for a, d_ in zip(m.args.kwonlyargs, m.args.kw_defaults):
            if a.arg not in env2 and d_ is not None:
                env2[a.arg] = other.ev(d_, {}, depth)
        for p_ in params:
            if p_ not in env2:
                raise TypeError(f"missing argument {p_}")
        try:
            return other.call(m, env2, depth)
        finally:
            self.steps = other.steps

    def construct(self, ci, args, kwargs, depth=0):
        """A witness instance of class ci: its constructor chain is folded on the given arguments."""
        o = Obj(_ci=ci)
        dc, m = ci.lookup("__init__")
        if isinstance(m, ast.FunctionDef):
            self._invoke(dc, m, o, args, kwargs, depth)
        return o

    def _call_args(self, e, env, depth):
        args = []
        for a in e.args:
            if isinstance(a, ast.Starred):
                args.extend(self.ev(a.value, env, depth))
            else:
                args.append(self.ev(a, env, depth))
        kwargs = {}
        for k in e.keywords:
            if k.arg is None:
                kwargs.update(self.ev(k.value, env, depth))
            else:
                kwargs[k.arg] = self.ev(k.value, env, depth)
        return args, kwargs

    def _method_call(self, e, env, depth):
        """obj.m(...) / super().m(...) / obj.attr_holding_a_class(...) on witness instances that carry their class."""
        f = e.func
        if not isinstance(f, ast.Attribute):
            return UNKNOWN
        v = f.value
        if isinstance(v, ast.Call) and isinstance(v.func, ast.Name) and v.func.id == "super" and self.me is None and self.cls is not None and getattr(self, "defcls", None) is not None:
            # super() / super(C, cls) inside a class method that was called on a class
            mro = self.cls.mro()
            if self.defcls in mro:
                for k in mro[mro.index(self.defcls) + 1:]:
                    m2 = k.methods.get(f.attr)
                    if m2 is None:
                        continue
                    decos = {getattr(d, "id", None) for d in m2.decorator_list}
                    if not decos & {"classmethod", "staticmethod"}:
                        return UNKNOWN
                    e2 = ast.copy_location(ast.Call(func=ast.copy_location(ast.Attribute(value=ast.copy_location(ast.Name(id="__super", ctx=ast.Load()), v), attr=f.attr, ctx=ast.Load()), f), args=e.args, keywords=e.keywords), e)
                    env2 = dict(env)
                    env2["__super"] = _SuperRef(self.cls, k)
                    return self._classmethod_call(e2, env2, depth)
            return UNKNOWN
        if isinstance(v, ast.Call) and isinstance(v.func, ast.Name) and v.func.id == "super" and (not v.args or (len(v.args) == 2 and self.me is not None)):
            if self.me is None or self.cls is None:
                return UNKNOWN
            mro = self.me.__dict__["_ci"].mro()
            start = self.cls
            if v.args:
                # super(C, cls) / super(C, self): continue after C in the receiver's MRO
                c0 = self.ctx.folder.eval(v.args[0], self.module)
                if not isinstance(c0, ClassRef):
                    return UNKNOWN
                start = c0.ci
            if start not in mro:
                return UNKNOWN
            for k in mro[mro.index(start) + 1:]:
                if f.attr in k.methods:
                    args, kwargs = self._call_args(e, env, depth)
                    return self._invoke(k, k.methods[f.attr], self.me, args, kwargs, depth)
            if f.attr == "__init__":
                return None  # object.__init__
            return UNKNOWN
        if isinstance(v, ast.Name) and isinstance(env.get(v.id), Instance) and _is_data_type(env[v.id].ci) and self.ctx.folder.elementary_format(env[v.id].ci) is None:
            # a codec call on a data-type object kept as a construction record (a named member of a structure): fold it on the
            # witness instance (elementary fixed-format types keep their direct path)
            env = _ChildEnv(env)
            dict.__setitem__(env, v.id, self._as_obj(env.parent[v.id], depth))
        if not self._mentions_obj(v, env) or any(isinstance(x, ast.Call) for x in ast.walk(v)):
            return UNKNOWN  # (a receiver that is itself a call is left to the other handlers: it must be evaluated only once)
        try:
            recv = self.ev(v, env, depth)
        except _Unknown:
            return UNKNOWN
        if isinstance(recv, ClassRef):
            # a class held in a witness attribute (cls.len_type.encode(n)): elementary codecs directly, other class / static
            # methods through the ordinary class-method path with the receiver bound to a temporary name
            if f.attr in ("encode", "decode") and len(e.args) == 1 and not e.keywords:
                arg = self.ev(e.args[0], env, depth)
                r_ = codec_apply(self.ctx, recv.ci, f.attr, [arg])
                if r_ is not UNKNOWN:
                    return r_
            e2 = ast.copy_location(ast.Call(func=ast.copy_location(ast.Attribute(value=ast.copy_location(ast.Name(id="__recv", ctx=ast.Load()), v), attr=f.attr, ctx=ast.Load()), f), args=e.args, keywords=e.keywords), e)
            env2 = dict(env)
            env2["__recv"] = recv
            return self._classmethod_call(e2, env2, depth)
        if not (isinstance(recv, Obj) and "_ci" in recv.__dict__):
            return UNKNOWN
        if f.attr in recv.__dict__:
            target = recv.__dict__[f.attr]
        else:
            dc, m = recv.__dict__["_ci"].lookup(f.attr)
            if isinstance(m, ast.FunctionDef):
                args, kwargs = self._call_args(e, env, depth)
                return self._invoke(dc, m, recv, args, kwargs, depth)
            if m is None:
                raise AttributeError(f.attr)
            target = self.ctx.folder.eval(m, dc.module)
        if isinstance(target, ClassRef):
            args, kwargs = self._call_args(e, env, depth)
            return self.construct(target.ci, args, kwargs, depth)
        if isinstance(target, BoundMethod):
            args, kwargs = self._call_args(e, env, depth)
            return self._invoke(target.dc, target.m, target.me, args, kwargs, depth)
        if isinstance(target, PyFunc):
            args, kwargs = self._call_args(e, env, depth)
            try:
                return target.fn(*args, **kwargs)
            except (_Raise, _Unknown):
                raise
            except Exception as err:
                raise _Unknown(f"witness callable {target.name} failed: {err!r}")
        return UNKNOWN

    def _ev(self, e, env, depth=0):
        if isinstance(e, ast.NamedExpr) and isinstance(e.target, ast.Name):
            # `(name := value)`: bound in the function's scope (past comprehension scopes), the value is the result
            v_ = self.ev(e.value, env, depth)
            scope = env
            while isinstance(scope, _ChildEnv):
                scope = scope.parent
            scope[e.target.id] = v_
            return v_
        if isinstance(e, ast.Attribute) and isinstance(e.value, ast.Name) and isinstance(env.get(e.value.id), Obj):
            return self._obj_attr(env[e.value.id], e.attr, depth)
        if isinstance(e, ast.Attribute) and isinstance(e.value, ast.Name) and isinstance(env.get(e.value.id), Instance) and e.attr not in ("decode", "encode"):
            # an attribute of an object kept as a construction record (`typ.name` of `UINT("vendor")`): its constructor is folded
            v0 = self.ctx.folder.eval(e, self.module, env=env)
            if v0 is not UNKNOWN:
                return v0
            return self._obj_attr(self._as_obj(env[e.value.id], depth), e.attr, depth)
        if isinstance(e, ast.Attribute) and not isinstance(e.value, ast.Name) and self._mentions_obj(e.value, env):
            base = self.ev(e.value, env, depth)
            if isinstance(base, Obj):
                return self._obj_attr(base, e.attr, depth)
            if isinstance(base, _Buffer):
                return getattr(base, e.attr)
        if isinstance(e, ast.Attribute) and e.attr in ("decode", "encode") and not self._mentions_obj(e.value, env):
            recv = self.ctx.folder.eval(e.value, self.module, env=env)
            if isinstance(recv, ClassRef):
                return Bound(recv.ci, e.attr)
        if self._mentions_obj(e, env) or id(e) in self.__dict__.get("_nofold", ()) or any(isinstance(x, ast.NamedExpr) for x in ast.walk(e)):
            v = UNKNOWN  # (an assignment expression binds in this environment: never left to the constant folder)
        elif self.hook is not None and isinstance(e, (ast.List, ast.Tuple, ast.Dict, ast.Set, ast.ListComp, ast.GeneratorExp, ast.SetComp, ast.DictComp, ast.IfExp, ast.BinOp, ast.BoolOp)) and any(isinstance(x, ast.Call) for x in ast.walk(e)):
            v = UNKNOWN  # calls inside a display / comprehension / conditional are evaluated one by one so that the rule's witnesses see them
        else:
            v = self.ctx.folder.eval(e, self.module, env=env)
        if v is not UNKNOWN and not _has_unknown(v):
            return v
        if isinstance(e, ast.Attribute) and isinstance(e.ctx, ast.Load):
            # an attribute of a class that one of its bases - made by a class factory - provides; an attribute of a witness object that
            # a call returned (`make(x).field`: the call is evaluated here, once)
            has_call = any(isinstance(x, ast.Call) for x in ast.walk(e.value))
            try:
                base_ = self.ev(e.value, env, depth)
            except _Unknown:
                if has_call:
                    raise
                base_ = UNKNOWN
            if isinstance(base_, ClassRef):
                dv = self._class_attr_dynamic(base_.ci, e.attr, depth)
                if dv is not UNKNOWN:
                    return dv
            if isinstance(base_, Obj):
                return self._obj_attr(base_, e.attr, depth)
            if has_call and base_ is not UNKNOWN and not isinstance(base_, (ClassRef, Instance, FuncRef, Stream, Bound)):
                return getattr(base_, e.attr)  # (a plain value: AttributeError is what the code would raise)
        if isinstance(e, ast.Compare) and len(e.ops) > 1:
            left = e.left
            for op_, right in zip(e.ops, e.comparators):
                # (operands of the witness functions are side-effect free names / attributes / constants)
                if not self.ev(ast.copy_location(ast.Compare(left=left, ops=[op_], comparators=[right]), e), env, depth):
                    return False
                left = right
            return True
        if isinstance(e, ast.Compare) and len(e.ops) == 1 and isinstance(e.ops[0], (ast.Lt, ast.LtE, ast.Gt, ast.GtE)):
            a, b = self.ev(e.left, env, depth), self.ev(e.comparators[0], env, depth)
            if all(isinstance(x, (int, float)) for x in (a, b)) or all(isinstance(x, (str,)) for x in (a, b)) or all(isinstance(x, (bytes,)) for x in (a, b)):
                op = e.ops[0]
                return a < b if isinstance(op, ast.Lt) else a <= b if isinstance(op, ast.LtE) else a > b if isinstance(op, ast.Gt) else a >= b
            if any(isinstance(x, (Obj, Stream, Bound)) or x is UNKNOWN for x in (a, b)):
                raise _Unknown(f"ordering of witness objects: {ast.unparse(e)[:60]}")
            raise TypeError("unorderable")
        if isinstance(e, ast.Compare) and len(e.ops) == 1:
            a, b = self.ev(e.left, env, depth), self.ev(e.comparators[0], env, depth)
            op = e.ops[0]
            if isinstance(op, (ast.In, ast.NotIn)) and isinstance(b, ClassRef) and b.ci.has_base_named("EnumMap") and not isinstance(a, (Obj, Stream, Bound)) and a is not UNKNOWN:
                by_name, rev = self.ctx.folder.enum_tables(b.ci)  # MapMeta.__contains__: str keys lower-cased
                kk = a.lower() if isinstance(a, str) else a
                try:
                    found = kk in rev or (isinstance(kk, str) and kk in by_name)
                except TypeError:
                    raise _Raise("TypeError")
                return found if isinstance(op, ast.In) else not found
            if isinstance(op, ast.Is):
                return a is b
            if isinstance(op, ast.IsNot):
                return a is not b
            if isinstance(op, ast.Eq):
                return a == b
            if isinstance(op, ast.NotEq):
                return a != b
            if isinstance(op, ast.In):
                return a in b
            if isinstance(op, ast.NotIn):
                return a not in b
        if isinstance(e, ast.UnaryOp) and isinstance(e.op, ast.Not):
            return not self.ev(e.operand, env, depth)
        if isinstance(e, ast.JoinedStr):
            parts = []
            for v_ in e.values:
                if isinstance(v_, ast.Constant):
                    parts.append(str(v_.value))
                else:
                    parts.append(str(self.ev(v_.value, env, depth)))
            return "".join(parts)
        if isinstance(e, ast.Call):
            if self.hook is not None and id(e) not in self.__dict__.get("_hooked", ()):
                r = self.hook(e, env, self)
                if r is not UNKNOWN:
                    return r
            r = self._method_call(e, env, depth)
            if r is not UNKNOWN:
                return r
            # a call of a value: a bound method / witness callable held in a local, a table or returned by getattr(...)
            fv = UNKNOWN
            if isinstance(e.func, ast.Name) and isinstance(env.get(e.func.id), (BoundMethod, PyFunc)):
                fv = env[e.func.id]
            elif isinstance(e.func, (ast.Call, ast.Subscript)) or (isinstance(e.func, ast.Attribute) and self._mentions_obj(e.func.value, env) and not any(isinstance(x, ast.Call) for x in ast.walk(e.func.value))
                                                                   and self._holds_pyfunc(e.func, env, depth)):
                try:
                    fv = self.ev(e.func, env, depth)
                except _Unknown:
                    fv = UNKNOWN
            if isinstance(fv, (BoundMethod, PyFunc)):
                args, kwargs = self._call_args(e, env, depth)
                if isinstance(fv, PyFunc):
                    try:
                        return fv.fn(*args, **kwargs)
                    except (_Raise, _Unknown):
                        raise
                    except Exception as err:  # the rule's witness code failed: the checker's failure, not the code's
                        raise _Unknown(f"witness callable {fv.name} failed: {err!r}")
                return self._invoke(fv.dc, fv.m, fv.me, args, kwargs, depth)
            if isinstance(e.func, ast.Name) and isinstance(env.get(e.func.id), LocalFunc):
                lf = env[e.func.id]
                if self.oo_depth > 24:
                    raise _Unknown("nested helper recursion too deep")
                args, kwargs = self._call_args(e, env, depth)
                params = [a.arg for a in lf.node.args.args]
                env2 = dict(lf.env)
                if len(args) > len(params):
                    raise TypeError("too many positional arguments")
                env2.update(zip(params, args))
                env2.update(kwargs)
                defaults = lf.node.args.defaults
                for p_, d_ in zip(params[len(params) - len(defaults):], defaults):
                    if p_ not in dict(zip(params, args)) and p_ not in kwargs:
                        env2[p_] = self.ev(d_, lf.env, depth)
                self.oo_depth += 1
                try:
                    return self.call(lf.node, env2, depth)
                finally:
                    self.oo_depth -= 1
            if self.me is not None and isinstance(e.func, ast.Name) and not self._mentions_obj(e.func, env):
                callee = self.ctx.folder.eval(e.func, self.module, env={k: v_ for k, v_ in env.items() if not isinstance(v_, (Obj, Stream, Bound))})
                if isinstance(callee, ClassRef) and "__init__" in {n for k in callee.ci.mro() for n in k.methods} and not _is_data_type(callee.ci):
                    args, kwargs = self._call_args(e, env, depth)
                    return self.construct(callee.ci, args, kwargs, depth)
            fi = None
            if depth >= self.max_depth and isinstance(e.func, ast.Name) and e.func.id not in env:
                fi0 = self.ctx.model.functions.get(f"{self.module.name}:{e.func.id}")
                if fi0 is None:
                    ref0 = self.ctx.folder.eval(e.func, self.module)
                    fi0 = self.ctx.model.func_by_node.get(ref0.node) if isinstance(ref0, FuncRef) and isinstance(getattr(ref0, "node", None), ast.FunctionDef) else None
                if fi0 is not None and fi0.cls is None and self._factory_class(fi0) is not None:
                    args, kwargs = self._call_args(e, env, depth)
                    return self._fold_factory(fi0, self._factory_class(fi0), args, kwargs, depth)
            if depth < self.max_depth and not self._mentions_obj(e.func, env):
                if isinstance(e.func, ast.Name):
                    fi = self.ctx.model.functions.get(f"{self.module.name}:{e.func.id}")
                if fi is None and isinstance(e.func, (ast.Name, ast.Attribute)):
                    ref = self.ctx.folder.eval(e.func, self.module, env={k: v_ for k, v_ in env.items() if not isinstance(v_, (Obj, Stream, Bound))})
                    if isinstance(ref, FuncRef) and isinstance(ref.node, ast.FunctionDef):
                        fi = self.ctx.model.func_by_node.get(ref.node)
                        if fi is not None and (fi.cls is not None or "." in fi.qualname):
                            fi = None  # methods are not helpers: codecs etc. have their own witnesses
            if fi is not None:
                fc = self._factory_class(fi)
                if fc is not None:
                    args, kwargs = self._call_args(e, env, depth)
                    return self._fold_factory(fi, fc, args, kwargs, depth)
            if fi is not None and not any(isinstance(a, ast.Starred) for a in e.args) and all(k.arg for k in e.keywords) \
                    and not fi.node.decorator_list and (fi.module is not self.module or depth < self.max_depth):
                # a module-level helper (of this module, or of another one: then interpreted in its own module)
                args = [self.ev(a, env, depth) for a in e.args]
                kwargs = {k.arg: self.ev(k.value, env, depth) for k in e.keywords}
                if any(a is UNKNOWN for a in args) or any(a is UNKNOWN for a in kwargs.values()):
                    raise _Unknown(f"argument of {fi.node.name} not foldable")
                other = self if fi.module is self.module else Interp(self.ctx, fi.module, self.hook, self.max_depth, self.cls)
                env2 = self._bind_params(fi.node, args, kwargs, lambda d_: other.ev(d_, {}, depth))
                if env2 is not None:
                    if other is not self:
                        other.steps = self.steps
                    return other.call(fi.node, env2, depth + 1)
        if isinstance(e, ast.Call) and isinstance(e.func, ast.Name) and e.func.id == "BytesIO" and len(e.args) <= 1 and "BytesIO" not in env:
            arg = self.ev(e.args[0], env, depth) if e.args else b""
            if isinstance(arg, (bytes, bytearray)):
                return Stream(arg)
        if isinstance(e, ast.Call) and isinstance(e.func, ast.Name) and isinstance(env.get(e.func.id), Bound):
            b_ = env[e.func.id]
            r_ = codec_apply(self.ctx, b_.ci, b_.name, [self.ev(a, env, depth) for a in e.args])
            if r_ is not UNKNOWN:
                return r_
        if isinstance(e, ast.Call) and isinstance(e.func, ast.Attribute):
            if isinstance(e.func.value, ast.Name) and isinstance(env.get(e.func.value.id), Stream) and e.func.attr in ("read", "tell", "seek", "getvalue", "getbuffer"):
                args = [self.ev(a, env, depth) for a in e.args]
                return getattr(env[e.func.value.id], e.func.attr)(*args)
            if e.func.attr in ("decode", "encode") and len(e.args) == 1 and not e.keywords:
                recv = self.ctx.folder.eval(e.func.value, self.module, env={k: v for k, v in env.items() if not isinstance(v, (Stream, Obj, Bound))})
                if isinstance(recv, Instance) and self.ctx.folder.elementary_format(recv.ci):
                    recv = ClassRef(recv.ci)  # a named instance of an elementary type (a structure member) codes like its class
                if isinstance(recv, ClassRef):
                    arg = self.ev(e.args[0], env, depth)
                    r_ = codec_apply(self.ctx, recv.ci, e.func.attr, [arg])
                    if r_ is not UNKNOWN:
                        return r_
        if isinstance(e, ast.Call) and isinstance(e.func, ast.Attribute) and e.func.attr == "get" and 1 <= len(e.args) <= 2 and not e.keywords and not self._mentions_obj(e.func.value, env):
            recv = self.ctx.folder.eval(e.func.value, self.module, env=env)
            if isinstance(recv, ClassRef) and recv.ci.has_base_named("EnumMap") and "get" not in recv.ci.methods:
                args = [self.ev(a, env, depth) for a in e.args]
                if not any(isinstance(a, (Obj, Stream, Bound)) or a is UNKNOWN for a in args):
                    return self.ctx.folder.enum_lookup(recv.ci, args[0], args[1] if len(args) == 2 else None)
        if isinstance(e, ast.Call):
            r_ = self._classmethod_call(e, env, depth)
            if r_ is not UNKNOWN:
                return r_
        if isinstance(e, ast.Name) and isinstance(env.get(e.id), (Stream, Bound, Obj, LazyGen)):
            return env[e.id]
        if isinstance(e, ast.Call) and isinstance(e.func, (ast.Name, ast.Attribute)) and not self._mentions_obj(e.func, env):
            callee = self.ctx.folder.eval(e.func, self.module, env=env)
            if isinstance(callee, ClassRef) and not any(isinstance(a, ast.Starred) for a in e.args):
                return Instance(callee.ci, [self.ev(a, env, depth) for a in e.args], {k.arg: self.ev(k.value, env, depth) for k in e.keywords if k.arg})
        if isinstance(e, ast.Call) and isinstance(e.func, ast.Name) and e.func.id == "getattr" and "getattr" not in env and len(e.args) in (2, 3) and not e.keywords:
            o, name = self.ev(e.args[0], env, depth), self.ev(e.args[1], env, depth)
            if isinstance(name, str):
                try:
                    if isinstance(o, Obj):
                        return self._obj_attr(o, name, depth)
                    if isinstance(o, ClassRef):
                        v = self.ctx.folder.class_attr(o.ci, name)
                        if v is UNKNOWN and o.ci.lookup(name)[1] is None:
                            raise AttributeError(name)
                        if v is not UNKNOWN:
                            return v
                    elif o is None or isinstance(o, (int, str, bytes, float, list, tuple, dict)):
                        return getattr(o, name)
                except AttributeError:
                    if len(e.args) == 3:
                        return self.ev(e.args[2], env, depth)
                    raise
        if isinstance(e, ast.Attribute) and not isinstance(e.value, ast.Name) and self._mentions_obj(e.value, env):
            base = self.ev(e.value, env, depth)
            if isinstance(base, ClassRef):
                v = self.ctx.folder.class_attr(base.ci, e.attr)
                if v is not UNKNOWN:
                    return v
        if isinstance(e, ast.Subscript):
            base = self.ev(e.value, env, depth)
            if isinstance(base, ClassRef) and base.ci.has_base_named("EnumMap"):
                k_ = self.ev(e.slice, env, depth)
                if not isinstance(k_, (Obj, Stream, Bound)) and k_ is not UNKNOWN:
                    miss = object()
                    v = self.ctx.folder.enum_lookup(base.ci, k_, miss)
                    if v is miss:
                        raise KeyError(k_)
                    return v
            if isinstance(base, (str, bytes, bytearray, list, tuple, dict)):
                if isinstance(e.slice, ast.Slice):
                    lo = self.ev(e.slice.lower, env, depth) if e.slice.lower is not None else None
                    hi = self.ev(e.slice.upper, env, depth) if e.slice.upper is not None else None
                    st_ = self.ev(e.slice.step, env, depth) if e.slice.step is not None else None
                    return base[lo:hi:st_]
                return base[self.ev(e.slice, env, depth)]
            if base is None or (isinstance(base, (int, float)) and not isinstance(base, bool)):
                raise TypeError("object is not subscriptable")
        if isinstance(e, ast.GeneratorExp):
            g0 = e.generators[0]
            first = self.ev(g0.iter, env, depth)
            if isinstance(first, (dict, set, frozenset, type({}.items()), type({}.keys()), type({}.values()), LazyGen)):
                first = list(first)
            if not isinstance(first, (list, tuple, str, bytes, range)) or len(first) > 4096:
                raise _Unknown("generator over a non-constant sequence")

            def produce(first=first):
                def rec(gens, env_, seq0):
                    if not gens:
                        yield self.ev(e.elt, env_, depth)
                        return
                    g_ = gens[0]
                    seq = seq0 if seq0 is not None else self.ev(g_.iter, env_, depth)
                    if isinstance(seq, (dict, set, frozenset, type({}.items()), type({}.keys()), type({}.values()), LazyGen)):
                        seq = list(seq)
                    for item in seq:
                        # the generator's own targets live in a child scope; everything else is read from the shared environment
                        env2 = _ChildEnv(env_)
                        self.store(g_.target, item, env2, depth)
                        if all(self.ev(c_, env2, depth) for c_ in g_.ifs):
                            yield from rec(gens[1:], env2, None)

                return rec(list(e.generators), env, first)

            return LazyGen(produce)
        if isinstance(e, (ast.ListComp, ast.GeneratorExp, ast.SetComp, ast.DictComp)):
            out = []

            def rec(gens, env_):
                if not gens:
                    if isinstance(e, ast.DictComp):
                        out.append((self.ev(e.key, env_, depth), self.ev(e.value, env_, depth)))
                    else:
                        out.append(self.ev(e.elt, env_, depth))
                    return
                g_ = gens[0]
                seq = self.ev(g_.iter, env_, depth)
                if isinstance(seq, (dict, set, frozenset, type({}.items()), type({}.keys()), type({}.values()), LazyGen)):
                    seq = list(seq)
                if not isinstance(seq, (list, tuple, str, bytes, range)) or len(seq) > 4096:
                    raise _Unknown("comprehension over a non-constant sequence")
                for item in seq:
                    env2 = _ChildEnv(env_)  # (the comprehension's own scope: its targets are local, everything else is the function's)
                    self.store(g_.target, item, env2, depth)
                    if all(self.ev(c_, env2, depth) for c_ in g_.ifs):
                        rec(gens[1:], env2)

            rec(list(e.generators), env)
            if isinstance(e, ast.DictComp):
                return dict(out)
            return out if not isinstance(e, ast.SetComp) else set(out)
        if isinstance(e, ast.Call) and isinstance(e.func, ast.Attribute) and not e.keywords and e.func.attr in _PURE_METHODS:
            recv_ = unknown_ = object()
            try:
                recv_ = self.ev(e.func.value, env, depth)
            except _Unknown:
                recv_ = unknown_  # (not None: an unknown receiver decides nothing)
            if (recv_ is None or isinstance(recv_, (int, float))) and not hasattr(recv_, e.func.attr):
                raise AttributeError(e.func.attr)  # e.g. (7).lower(): what the interpreted code would raise
            if isinstance(recv_, (str, bytes, list, tuple, dict)) and not isinstance(recv_, bool):
                args = [self.ev(a, env, depth) for a in e.args]
                if e.func.attr in ("append", "extend", "update", "pop", "insert", "clear", "setdefault") or all(not isinstance(a, (Obj, Stream, Bound)) for a in args):
                    return getattr(recv_, e.func.attr)(*args)
            if isinstance(recv_, (list, set, dict, bytearray)) and e.func.attr in _MUTATORS and hasattr(recv_, e.func.attr):
                return getattr(recv_, e.func.attr)(*[self.ev(a, env, depth) for a in e.args])
        if isinstance(e, ast.Call) and isinstance(e.func, ast.Name) and e.func.id in ("isinstance", "issubclass") and len(e.args) == 2 and e.func.id not in env and not e.keywords:
            # against classes of the package: decided on the class a witness object carries, through the model's MRO
            try:
                t_ = self.ev(e.args[1], env, depth)
            except _Unknown:
                t_ = UNKNOWN
            ts_ = list(t_) if isinstance(t_, (tuple, list)) else [t_]
            if ts_ and all(isinstance(x, ClassRef) for x in ts_):
                v_ = self.ev(e.args[0], env, depth)
                if e.func.id == "isinstance":
                    if isinstance(v_, Obj) and "_ci" in v_.__dict__ and not v_.__dict__.get("_is_class"):
                        return any(x.ci in v_.__dict__["_ci"].mro() for x in ts_)
                    if isinstance(v_, Instance):
                        return any(x.ci in v_.ci.mro() for x in ts_)
                    if isinstance(v_, str) and v_.startswith("<") and v_.endswith(">"):
                        pass  # an exception witness bound by `except ... as err`: decided below on the exception hierarchy
                    elif v_ is None or isinstance(v_, (int, float, str, bytes, bytearray, list, tuple, dict, set, frozenset)):
                        return False
                else:
                    if isinstance(v_, ClassRef):
                        return any(x.ci in v_.ci.mro() for x in ts_)
                    if isinstance(v_, Obj) and v_.__dict__.get("_is_class") and "_ci" in v_.__dict__:
                        return any(x.ci in v_.__dict__["_ci"].mro() for x in ts_)
                    if v_ is None or isinstance(v_, (int, float, str, bytes, bytearray, list, tuple, dict)) or (isinstance(v_, Obj) and "_ci" in v_.__dict__):
                        raise TypeError("issubclass() arg 1 must be a class")
        if isinstance(e, ast.Call) and isinstance(e.func, ast.Name) and e.func.id == "isinstance" and len(e.args) == 2 and "isinstance" not in env:
            kinds = {"str": (str,), "bytes": (bytes,), "bytearray": (bytearray,), "int": (int,), "float": (float,), "bool": (bool,), "list": (list,), "tuple": (tuple,), "dict": (dict,),
                     "set": (set, frozenset), "Sequence": (list, tuple, str, bytes, range), "Mapping": (dict,), "Iterable": (list, tuple, str, bytes, dict, set, range), "Generator": ()}
            names = [ast.unparse(x).split(".")[-1] for x in (e.args[1].elts if isinstance(e.args[1], ast.Tuple) else [e.args[1]])]
            v0 = self.ev(e.args[0], env, depth) if not all(n_ in kinds for n_ in names) else None
            if isinstance(v0, str) and v0.startswith("<") and v0.endswith(">"):
                # an exception witness bound by `except ... as err`
                exc = v0[1:-1]
                return any(self._exc_isa(exc, n_) for n_ in names)
            if all(n_ in kinds for n_ in names):
                v_ = self.ev(e.args[0], env, depth)
                if not isinstance(v_, (Obj, ClassRef, FuncRef, Instance)):
                    return any(isinstance(v_, kinds[n_]) for n_ in names)
        if isinstance(e, ast.Call) and isinstance(e.func, ast.Attribute) and isinstance(e.func.value, ast.Name) and e.func.value.id in ("int", "bytes", "str", "dict") and e.func.value.id not in env \
                and (e.func.value.id, e.func.attr) in (("int", "from_bytes"), ("bytes", "fromhex"), ("str", "join"), ("dict", "fromkeys")):
            args = [self.ev(a, env, depth) for a in e.args]
            kw = {k.arg: self.ev(k.value, env, depth) for k in e.keywords if k.arg}
            if all(isinstance(a, (int, str, bytes, bytearray, list, tuple)) for a in args + list(kw.values())):
                return getattr({"int": int, "bytes": bytes, "str": str, "dict": dict}[e.func.value.id], e.func.attr)(*args, **kw)
            if e.func.attr == "fromkeys" and not kw and 1 <= len(args) <= 2 and isinstance(args[0], (list, tuple, range, dict, set, frozenset, str, bytes)):
                # every key maps to the one value object, whatever it is
                return dict.fromkeys(args[0], *args[1:])
        if isinstance(e, ast.Call) and isinstance(e.func, ast.Name) and e.func.id == "dict" and "dict" not in env and e.keywords and len(e.args) <= 1 \
                and not any(isinstance(a, ast.Starred) for a in e.args) and self.ctx.model.resolve(self.module.name, "dict") is None:
            # dict(a=x, **more) / dict(mapping, a=x): the values are whatever the expressions give
            d_ = {}
            if e.args:
                src_ = self.ev(e.args[0], env, depth)
                if isinstance(src_, dict):
                    d_.update(src_)
                elif isinstance(src_, (list, tuple)):
                    d_.update(dict(src_))
                else:
                    raise _Unknown("dict() of a value that is not a mapping or a list of pairs")
            for k in e.keywords:
                v_ = self.ev(k.value, env, depth)
                if k.arg is None:
                    if not isinstance(v_, dict):
                        raise _Unknown("dict(**value) of a value that is not a mapping")
                    d_.update(v_)
                else:
                    d_[k.arg] = v_
            return d_
        if isinstance(e, ast.Call) and (ast.unparse(e.func) in ("starmap", "itertools.starmap")) and "starmap" not in env and not e.keywords and len(e.args) == 2:
            # starmap(f, rows): f(*row) row by row, each call evaluated like any other call
            rows = self.ev(e.args[1], env, depth)
            if isinstance(rows, (list, tuple, LazyGen)):
                out = []
                for row in list(rows):
                    row = list(row)
                    names = [f"__smap{i}" for i in range(len(row))]
                    call = ast.Call(func=e.args[0], args=[ast.Name(id=n_, ctx=ast.Load()) for n_ in names], keywords=[])
                    ast.copy_location(call, e)
                    ast.fix_missing_locations(call)
                    child = _ChildEnv(env)
                    for n_, it_ in zip(names, row):
                        dict.__setitem__(child, n_, it_)
                    out.append(self.ev(call, child, depth))
                return out
        if isinstance(e, ast.Call) and isinstance(e.func, ast.Name) and e.func.id in ("map", "filter") and e.func.id not in env and not e.keywords and len(e.args) >= 2:
            # map(f, xs, ...) / filter(f, xs): the call f(x) is evaluated element by element like any other call
            seqs = [self.ev(a, env, depth) for a in e.args[1:]]
            if all(isinstance(s_, (list, tuple, range, LazyGen, str, bytes, bytearray, dict, set, frozenset)) for s_ in seqs):
                out = []
                names = [f"__map{i}" for i in range(len(seqs))]
                call = ast.Call(func=e.args[0], args=[ast.Name(id=n_, ctx=ast.Load()) for n_ in names], keywords=[])
                ast.copy_location(call, e)
                ast.fix_missing_locations(call)
                for items in zip(*[list(s_) for s_ in seqs]):
                    child = _ChildEnv(env)
                    for n_, it in zip(names, items):
                        dict.__setitem__(child, n_, it)
                    if isinstance(e.args[0], ast.Constant) and e.args[0].value is None:
                        r_ = items[0]
                    else:
                        r_ = self.ev(call, child, depth)
                    if e.func.id == "map":
                        out.append(r_)
                    elif r_:
                        out.append(items[0])
                return out
        if isinstance(e, ast.Call) and isinstance(e.func, ast.Name) and e.func.id in _PURE_BUILTINS and e.func.id not in env and not e.keywords:
            args = [self.ev(a, env, depth) for a in e.args]
            if e.func.id == "bool" and len(args) == 1 and isinstance(args[0], Obj):
                return bool(args[0])
            if e.func.id == "range" and any(a is None or isinstance(a, (ClassRef, Instance, str, bytes, list, dict, float)) for a in args):
                raise TypeError("range() of a non-integer")
            if all(isinstance(a, (int, float, str, bytes, bytearray, bool, list, tuple, dict, range, set, frozenset, type(None), LazyGen)) for a in args):
                return _PURE_BUILTINS[e.func.id](*args)
        if isinstance(e, ast.Call) and ast.unparse(e.func) in ("Struct", "struct.Struct") and len(e.args) == 1 and not e.keywords and "Struct" not in env and self.ctx.model.resolve(self.module.name, "Struct") is None:
            import struct as _struct

            f_ = self.ev(e.args[0], env, depth)
            if isinstance(f_, (str, bytes)):
                try:
                    return _struct.Struct(f_)
                except _struct.error:
                    raise _Raise("struct.error")
        if isinstance(e, ast.Call) and isinstance(e.func, ast.Attribute) and e.func.attr in ("pack", "unpack", "unpack_from", "iter_unpack") and not e.keywords:
            import struct as _struct

            try:
                rs_ = self.ev(e.func.value, env, depth) if not any(isinstance(x, ast.Call) for x in ast.walk(e.func.value)) else None
            except _Unknown:
                rs_ = None
            if isinstance(rs_, _struct.Struct):
                args = [self.ev(a, env, depth) for a in e.args]
                try:
                    r_ = getattr(rs_, e.func.attr)(*args)
                except _struct.error:
                    raise _Raise("struct.error")
                return list(r_) if e.func.attr == "iter_unpack" else r_
        if isinstance(e, ast.Attribute) and e.attr in ("size", "format") and not any(isinstance(x, ast.Call) for x in ast.walk(e.value)):
            import struct as _struct

            try:
                rs_ = self.ev(e.value, env, depth)
            except _Unknown:
                rs_ = None
            if isinstance(rs_, _struct.Struct):
                return getattr(rs_, e.attr)
        if isinstance(e, ast.Call) and ast.unparse(e.func) in ("pack", "unpack", "unpack_from", "calcsize", "struct.pack", "struct.unpack", "struct.unpack_from", "struct.calcsize") and not e.keywords:
            import struct as _struct

            args = [self.ev(a, env, depth) for a in e.args]
            if args and isinstance(args[0], str):
                try:
                    r_ = getattr(_struct, ast.unparse(e.func).split(".")[-1])(*args)
                except _struct.error:
                    raise _Raise("struct.error")
                return list(r_) if False else r_
        if isinstance(e, ast.Call) and ast.unparse(e.func) in ("datetime.datetime", "datetime.timedelta", "datetime", "timedelta"):
            import datetime as _dt

            args = [self.ev(a, env, depth) for a in e.args]
            kw = {k.arg: self.ev(k.value, env, depth) for k in e.keywords if k.arg}
            return getattr(_dt, ast.unparse(e.func).split(".")[-1])(*args, **kw)
        if isinstance(e, ast.Call) and isinstance(e.func, ast.Attribute) and e.func.attr in ("strftime", "isoformat", "timestamp", "total_seconds"):
            import datetime as _dt

            recv_ = self.ev(e.func.value, env, depth)
            if isinstance(recv_, (_dt.datetime, _dt.timedelta, _dt.date)):
                return getattr(recv_, e.func.attr)(*[self.ev(a, env, depth) for a in e.args])
        if isinstance(e, ast.Call) and ast.unparse(e.func) in ("chain.from_iterable", "itertools.chain.from_iterable") and len(e.args) == 1:
            return _chain_from_iterable(self.ev(e.args[0], env, depth))
        if isinstance(e, ast.BinOp):
            a, b = self.ev(e.left, env, depth), self.ev(e.right, env, depth)
            v = self.ctx.folder.eval(ast.BinOp(left=ast.Name(id="__a", ctx=ast.Load()), op=e.op, right=ast.Name(id="__b", ctx=ast.Load())), self.module, env={"__a": a, "__b": b})
            if v is not UNKNOWN:
                return v
        if isinstance(e, ast.IfExp):
            t = self.ev(e.test, env, depth)
            return self.ev(e.body if t else e.orelse, env, depth)
        if isinstance(e, ast.BoolOp):
            r = None
            for x in e.values:
                r = self.ev(x, env, depth)
                if isinstance(e.op, ast.And) and not r:
                    return r
                if isinstance(e.op, ast.Or) and r:
                    return r
            return r
        if isinstance(e, ast.Dict):
            out_ = {}
            for k, v_ in zip(e.keys, e.values):
                if k is None:  # {**mapping}
                    m_ = self.ev(v_, env, depth)
                    if not isinstance(m_, dict):
                        raise _Unknown("** of a non-constant mapping") if isinstance(m_, (Obj, Stream, Bound)) or m_ is UNKNOWN else TypeError("not a mapping")
                    out_.update(m_)
                else:
                    out_[self.ev(k, env, depth)] = self.ev(v_, env, depth)
            return out_
        if isinstance(e, (ast.Tuple, ast.List)):
            vals = []
            for x in e.elts:
                if isinstance(x, ast.Starred):
                    part = self.ev(x.value, env, depth)
                    if isinstance(part, (Obj, Stream, Bound)) or part is UNKNOWN:
                        raise _Unknown("unpacking of a witness object")
                    vals.extend(part)
                else:
                    vals.append(self.ev(x, env, depth))
            return tuple(vals) if isinstance(e, ast.Tuple) else vals
        if isinstance(e, ast.Name) and isinstance(e.ctx, ast.Load) and e.id not in env:
            # a module-level constant the folder cannot give whole (e.g. a tuple with a factory-made member): its defining expression,
            # assigned exactly once, is evaluated here in its own module (once per run)
            sym = self.ctx.model.resolve(self.module.name, e.id)
            if sym is not None and sym.kind == "assign" and len(sym.values) == 1 and sym.module in self.ctx.model.modules and depth < self.max_depth + 4:
                cache = self.ctx.__dict__.setdefault("_module_consts", {})
                k_ = id(sym.values[0])
                if k_ not in cache:
                    cache[k_] = None
                    try:
                        cache[k_] = ("ok", Interp(self.ctx, self.ctx.model.modules[sym.module], None, self.max_depth).ev(sym.values[0], {}, depth + 1))
                    except _Unknown:
                        cache[k_] = None
                if cache[k_] is not None:
                    return cache[k_][1]
        raise _Unknown(f"expression not foldable: {ast.unparse(e)[:80]}")

    def _exc_isa(self, name, parent):
        from .cfg import EXC_ALIASES

        name, parent = EXC_ALIASES.get(name, name), EXC_ALIASES.get(parent, parent)
        if name == parent or parent in ("Exception", "BaseException"):
            return True
        for c in self.ctx.model.classes.values():
            if c.name == name:
                return any(k.name == parent for k in c.mro()) or any(getattr(b, "id", None) == parent for k in c.mro() for b in k.node.bases)
        from .cfg import exc_is_subclass

        return bool(exc_is_subclass(name, parent))

    def _classmethod_call(self, e, env, depth):
        """X.method(args) where X is a class of the model and method a classmethod / staticmethod found through the MRO."""
        if not (isinstance(e.func, ast.Attribute) and depth < self.max_depth + 3):
            return UNKNOWN
        if self._mentions_obj(e.func.value, env):
            return UNKNOWN
        recv = self.ctx.folder.eval(e.func.value, self.module, env=env)
        if isinstance(recv, _SuperRef):
            dc, m = recv.start, recv.start.methods.get(e.func.attr)
            recv = ClassRef(recv.ci)
        elif not isinstance(recv, ClassRef):
            return UNKNOWN
        else:
            dc, m = recv.ci.lookup(e.func.attr)
        if not isinstance(m, ast.FunctionDef):
            return UNKNOWN
        decos = {getattr(d, "id", None) for d in m.decorator_list}
        if not decos & {"classmethod", "staticmethod"} or any(isinstance(a, ast.Starred) for a in e.args):
            return UNKNOWN
        params = [a.arg for a in m.args.args]
        env2 = {}
        if "classmethod" in decos:
            env2[params[0]] = recv
            params = params[1:]
        args = [self.ev(a, env, depth) for a in e.args]
        if len(args) > len(params):
            if m.args.vararg is None:
                return UNKNOWN
            env2[m.args.vararg.arg] = tuple(args[len(params):])
            args = args[:len(params)]
        elif m.args.vararg is not None:
            env2[m.args.vararg.arg] = ()
        env2.update(zip(params, args))
        for k in e.keywords:
            if k.arg:
                env2[k.arg] = self.ev(k.value, env, depth)
        other = Interp(self.ctx, dc.module, self.hook, self.max_depth, recv.ci)
        other.defcls = dc  # the class that defines m: where super() continues from
        other.steps = self.steps
        defaults = m.args.defaults
        for p_, d_ in zip([a.arg for a in m.args.args][len(m.args.args) - len(defaults):], defaults):
            if p_ not in env2:
                env2[p_] = other.ev(d_, {}, depth)
        for p_ in params:
            if p_ not in env2:
                return UNKNOWN
        r = other.call(m, env2, depth + 1)
        self.steps = other.steps
        return r

    @staticmethod
    def _mentions_obj(e, env):
        # (a lazy generator is never handed to the constant folder either: looking at it would consume it)
        return any(isinstance(x, ast.Name) and isinstance(env.get(x.id), (Obj, Stream, Bound, LazyGen)) for x in ast.walk(e))

    # ------------------------------------------------------------------ statements
    def call(self, func, env, depth=0):
        outer = self.__dict__.get("_frame", 0)
        self.__dict__["_frames"] = self.__dict__.get("_frames", 0) + 1
        self._frame = self.__dict__["_frames"]
        try:
            self.block(func.body, env, depth)
        except _Return as r:
            return r.value
        finally:
            self._frame = outer
        return None

    def block(self, stmts, env, depth):
        for st in stmts:
            try:
                self._stmt(st, env, depth)
            except (ArithmeticError, TypeError, ValueError, KeyError, IndexError, AttributeError) as err:
                # a pure operation fails on the witness: that is the exception the interpreted code would raise there
                raise _Raise(type(err).__name__)

    def _stmt(self, st, env, depth):
        if True:
            self.steps += 1
            if self.steps > 5000:
                raise _Unknown("step budget")
            if isinstance(st, ast.Expr):
                if isinstance(st.value, ast.Constant):
                    return
                if isinstance(st.value, ast.Yield) and self.__dict__.get("_cm_stack"):
                    # the `yield` of a generator-based context manager: the body of the `with` statement runs here, so that what it
                    # raises meets the manager's own try / except / finally
                    cb = self._cm_stack.pop()
                    cb(self.ev(st.value.value, env, depth) if st.value.value is not None else None)
                    return
                if isinstance(st.value, ast.Yield) and getattr(self, "_yields", None) is not None:
                    self._yields.append(self.ev(st.value.value, env, depth) if st.value.value is not None else None)
                    if len(self._yields) >= self._yield_limit:
                        raise _Return(None)
                    return
                self.effect(st.value, env, depth)
            elif isinstance(st, ast.Pass):
                return
            elif isinstance(st, ast.FunctionDef) and not st.decorator_list:
                env[st.name] = LocalFunc(st, env)  # a nested helper: called with the enclosing bindings visible
            elif isinstance(st, ast.Assign):
                v = self.ev(st.value, env, depth)
                for t in st.targets:
                    self.store(t, v, env, depth)
            elif isinstance(st, ast.AnnAssign) and st.value is not None:
                self.store(st.target, self.ev(st.value, env, depth), env, depth)
            elif isinstance(st, ast.AugAssign):
                cur = self.ev(ast.copy_location(_load(st.target), st), env, depth)
                rhs = self.ev(st.value, env, depth)
                if isinstance(cur, list) and isinstance(st.op, ast.Add) and isinstance(rhs, (list, tuple, LazyGen, str, bytes, dict, set, frozenset, range)):
                    cur.extend(rhs)  # in place: every other name of the list sees it
                    v = cur
                elif isinstance(cur, bytearray) and isinstance(st.op, ast.Add) and isinstance(rhs, (bytes, bytearray)):
                    cur.extend(rhs)
                    v = cur
                elif isinstance(cur, (set, dict)) and isinstance(st.op, ast.BitOr) and isinstance(rhs, type(cur)):
                    cur.update(rhs)
                    v = cur
                else:
                    v = self.ctx.folder.eval(ast.BinOp(left=ast.Name(id="__a", ctx=ast.Load()), op=st.op, right=ast.Name(id="__b", ctx=ast.Load())), self.module, env={"__a": cur, "__b": rhs})
                if v is UNKNOWN:
                    raise _Unknown("augmented assignment not foldable")
                self.store(st.target, v, env, depth)
            elif isinstance(st, ast.If):
                t = self.ev(st.test, env, depth)
                self.block(st.body if t else st.orelse, env, depth)
            elif isinstance(st, ast.For):
                seq = self.ev(st.iter, env, depth)
                if isinstance(seq, (dict, set, frozenset, type({}.items()), type({}.keys()), type({}.values()), LazyGen)):
                    seq = list(seq)
                if not isinstance(seq, (list, tuple, str, bytes, range)) or len(seq) > 256:
                    raise _Unknown("loop over a non-constant or long sequence")
                broke = False
                for item in seq:
                    self.store(st.target, item, env, depth)
                    try:
                        self.block(st.body, env, depth)
                    except _Break:
                        broke = True
                        break
                    except _Continue:
                        continue
                if not broke:
                    self.block(st.orelse, env, depth)
            elif isinstance(st, ast.While):
                rounds, broke = 0, False
                while self.ev(st.test, env, depth):
                    rounds += 1
                    if rounds > 400:
                        raise _Unknown("while loop does not end on the witness within 400 rounds")
                    try:
                        self.block(st.body, env, depth)
                    except _Break:
                        broke = True
                        break
                    except _Continue:
                        continue
                if not broke:
                    self.block(st.orelse, env, depth)
            elif isinstance(st, ast.AnnAssign):
                if st.value is not None:
                    self.store(st.target, self.ev(st.value, env, depth), env, depth)
            elif isinstance(st, ast.Return):
                raise _Return(self.ev(st.value, env, depth) if st.value is not None else None)
            elif isinstance(st, ast.Raise):
                from .cfg import exc_name

                if st.exc is None and getattr(self, "_handling", None):
                    raise _Raise(self._handling[-1])
                raise _Raise(exc_name(st.exc) or "?")
            elif isinstance(st, ast.With) and len(st.items) == 1 and isinstance(st.items[0].context_expr, ast.Call):
                # `with manager(args): body` for a generator-based context manager of the package (@contextmanager): the manager's
                # function is folded and the body is run at its `yield`
                item = st.items[0]
                call = item.context_expr
                ref = self.ctx.folder.eval(call.func, self.module) if isinstance(call.func, (ast.Name, ast.Attribute)) and not self._mentions_obj(call.func, env) else UNKNOWN
                node = getattr(ref, "node", None) if isinstance(ref, FuncRef) else None
                if not (isinstance(node, ast.FunctionDef) and any((getattr(d, "id", None) or getattr(d, "attr", None)) == "contextmanager" for d in node.decorator_list)):
                    raise _Unknown(f"with statement over {ast.unparse(call.func)}")
                args, kwargs = self._call_args(call, env, depth)
                params = [a.arg for a in node.args.args]
                if len(args) > len(params):
                    raise TypeError("too many positional arguments")
                env2 = dict(zip(params, args))
                env2.update(kwargs)
                other = self if ref.module is self.module else Interp(self.ctx, ref.module, self.hook, self.max_depth, self.cls)
                for p_, d_ in zip(params[len(params) - len(node.args.defaults):], node.args.defaults):
                    if p_ not in env2:
                        env2[p_] = other.ev(d_, {}, depth)
                ran = []

                leaving = []

                def body(value, ran=ran):
                    ran.append(1)
                    if item.optional_vars is not None:
                        self.store(item.optional_vars, value, env, depth)
                    try:
                        self.block(st.body, env, depth)
                    except (_Return, _Break, _Continue) as ctl:
                        # return / break / continue inside the body: the manager is left normally (it resumes after its yield), then
                        # the statement takes effect in the enclosing function
                        leaving.append(ctl)

                other.__dict__.setdefault("_cm_stack", []).append(body)
                n0 = len(other._cm_stack)
                try:
                    other.call(node, env2, depth + 1)
                finally:
                    del other._cm_stack[n0 - 1:]
                if not ran:
                    raise _Raise("RuntimeError")  # generator didn't yield
                if leaving:
                    raise leaving[0]
            elif isinstance(st, ast.Break):
                raise _Break()
            elif isinstance(st, ast.Continue):
                raise _Continue()
            elif isinstance(st, ast.Try):
                try:
                    self.block(st.body, env, depth)
                except _Raise as r:
                    from .cfg import exc_is_subclass, handler_catches_all, handler_names

                    for h in st.handlers:
                        names = handler_names(h)
                        if handler_catches_all(h) or any(n_ == r.name or exc_is_subclass(r.name, n_) for n_ in names if n_):
                            if h.name:
                                env[h.name] = f"<{r.name}>"
                            self._handling = getattr(self, "_handling", []) + [r.name]
                            try:
                                self.block(h.body, env, depth)
                            finally:
                                self._handling = self._handling[:-1]
                            break
                    else:
                        self.block(st.finalbody, env, depth)
                        raise
                else:
                    self.block(st.orelse, env, depth)
                self.block(st.finalbody, env, depth)
            else:
                raise _Unknown(f"statement kind {type(st).__name__}")

    def effect(self, e, env, depth):
        # calls for effect: logging is ignored, list/dict mutators on environment objects are applied
        if isinstance(e, ast.Call) and self.hook is not None:
            r = self.hook(e, env, self)
            if r is not UNKNOWN:
                return
        if isinstance(e, ast.Call) and isinstance(e.func, ast.Attribute):
            recv = e.func.value
            rn = ast.unparse(recv)
            if _is_logging_call(rn, e.func.attr):
                return
            target = None
            if isinstance(recv, ast.Name) and recv.id in env and isinstance(env[recv.id], (list, dict, set)):
                target = env[recv.id]
            elif e.func.attr in ("append", "extend", "update", "add", "pop", "insert", "setdefault", "clear", "reverse", "sort", "remove", "discard"):
                try:
                    target = self.ev(recv, env, depth)
                except _Unknown:
                    target = None
                if not isinstance(target, (list, dict, set)):
                    target = None
            if target is not None:
                args = [self.ev(a, env, depth) for a in e.args]
                m = e.func.attr
                env = dict(env)
                env["__target"] = target
                recv = ast.Name(id="__target", ctx=ast.Load())
                if m in ("append", "extend", "update", "add", "pop", "insert", "setdefault", "clear", "reverse", "sort", "remove", "discard"):
                    getattr(env[recv.id], m)(*args)
                    return
        try:
            self.ev(e, env, depth)  # a call whose value is discarded: evaluate it for its effects on witness objects
            return
        except _Unknown as u:
            why = u.why
        raise _Unknown(f"{ast.unparse(e)[:40]} <- {why[-300:]}")

    def store(self, t, v, env, depth):
        if isinstance(t, ast.Name):
            env[t.id] = v
        elif isinstance(t, (ast.Tuple, ast.List)):
            if isinstance(v, (set, frozenset, dict, range)):
                v = list(v)
            if v is None or isinstance(v, (int, float, bool)):
                raise TypeError("cannot unpack a non-iterable value")
            if not isinstance(v, (tuple, list, str, bytes)):
                raise _Unknown("unpacking")
            v = list(v)
            stars = [i for i, x in enumerate(t.elts) if isinstance(x, ast.Starred)]
            if len(stars) > 1:
                raise _Unknown("unpacking")
            if stars:
                i = stars[0]
                after = len(t.elts) - i - 1
                if len(v) < len(t.elts) - 1:
                    raise ValueError("not enough values to unpack")
                for x, y in zip(t.elts[:i], v[:i]):
                    self.store(x, y, env, depth)
                self.store(t.elts[i].value, v[i:len(v) - after], env, depth)
                for x, y in zip(t.elts[i + 1:], v[len(v) - after:]):
                    self.store(x, y, env, depth)
            else:
                if len(v) != len(t.elts):
                    raise ValueError("wrong number of values to unpack")
                for x, y in zip(t.elts, v):
                    self.store(x, y, env, depth)
        elif isinstance(t, ast.Subscript) and isinstance(t.value, ast.Name) and t.value.id in env and isinstance(env[t.value.id], (dict, list, bytearray)):
            if isinstance(t.slice, ast.Slice):
                lo = self.ev(t.slice.lower, env, depth) if t.slice.lower is not None else None
                hi = self.ev(t.slice.upper, env, depth) if t.slice.upper is not None else None
                if t.slice.step is not None:
                    raise _Unknown("extended slice store")
                env[t.value.id][lo:hi] = v
            else:
                k = self.ev(t.slice, env, depth)
                env[t.value.id][k] = v
        elif isinstance(t, ast.Attribute) and isinstance(t.value, ast.Name) and isinstance(env.get(t.value.id), Obj):
            env[t.value.id].__dict__[t.attr] = v
        elif isinstance(t, ast.Subscript):
            # a store into a container reached through an expression (self._info["tasks"][name] = ...)
            container = self.ev(t.value, env, depth)
            if not isinstance(container, (dict, list)):
                raise _Unknown(f"store target {ast.unparse(t)[:40]}")
            container[self.ev(t.slice, env, depth)] = v
        else:
            raise _Unknown(f"store target {ast.unparse(t)[:40]}")


def _load(t):
    t2 = _clone(t)
    for n in ast.walk(t2):
        if hasattr(n, "ctx"):
            n.ctx = ast.Load()
    return t2


Raise = _Raise  # a call hook may `raise Raise("DataError")` to model a callee that fails


def run_function(ctx, module, func, env, call_hook=None, deep=True):
    """('return', value) | ('raise', exception name) | ('unknown', reason).  `env` is copied deeply first."""
    it = Interp(ctx, module, call_hook)
    try:
        return "return", it.call(func, copy.deepcopy(env) if deep else env)
    except _Raise as r:
        return "raise", r.name
    except _Unknown as u:
        return "unknown", u.why
    except (ArithmeticError, TypeError, ValueError, KeyError, IndexError, AttributeError) as err:
        # the witness makes a pure builtin operation fail: report it as the exception the code would raise
        return "raise", type(err).__name__


def fold_object(ctx, ci, args=(), kwargs=None, call_hook=None):
    """('return', witness instance) | ('raise', name) | ('unknown', reason): class ci constructed on constants, its
    constructor chain folded through the MRO."""
    it = Interp(ctx, ci.module, call_hook)
    return _guard(lambda: it.construct(ci, list(args), dict(kwargs or {})))


def fold_method(ctx, obj, name, args=(), kwargs=None, call_hook=None):
    """Fold obj.<name>(*args) on a witness instance made by fold_object (attribute `name` may also be a property)."""
    ci = obj.__dict__["_ci"]
    it = Interp(ctx, ci.module, call_hook)

    def go():
        dc, m = ci.lookup(name)
        if not isinstance(m, ast.FunctionDef):
            raise _Unknown(f"{ci.name}.{name} is not a method")
        if any(getattr(d, "id", None) == "property" for d in m.decorator_list):
            return it._invoke(dc, m, obj, [], {}, 0)
        return it._invoke(dc, m, obj, list(args), dict(kwargs or {}), 0)

    return _guard(go)


def _guard(fn):
    try:
        return "return", fn()
    except _Raise as r:
        return "raise", r.name
    except _Unknown as u:
        return "unknown", u.why
    except (ArithmeticError, TypeError, ValueError, KeyError, IndexError, AttributeError) as err:
        return "raise", type(err).__name__


def run_generator(ctx, module, func, env, n, call_hook=None):
    """The first n values a generator function yields on constants: ('return', [values]) - fewer than n when the generator ends -
    | ('raise', name) | ('unknown', reason).  `yield` must be a statement of its own (a value sent in is not modelled)."""
    it = Interp(ctx, module, call_hook)
    it._yields, it._yield_limit = [], n

    def go():
        it.call(func, dict(env))
        return list(it._yields)

    return _guard(go)
