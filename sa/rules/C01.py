"""C01 -- Tag reads return exactly what the controller holds."""
from __future__ import annotations

import ast

from ..astutil import attr_path, call_name, walk, src, enclosing_func, ancestors
from ..consteval import UNKNOWN, ClassRef
from ..framework import rule
from ..linexpr import Lin, atom_name, cmp_norm, lin
from .common import witness_instance, DT, LX, PE, PL, PU, ckey

P = "C01"
EXPLANATION = (
    "Static rules D1.1-D1.11 (DESIGN.md section 5, C01) on the plumbing every read depends on: both reply-splitting sites use the "
    "same structure marker (A0 02, from the specification) and header lengths 4/2 and parse_value re-prepends exactly the header "
    "it removed; multi-service demultiplexing constants (padding = offset of the service byte in the connected reply parser, "
    "count at 0, offsets from 2, UINT entries, consecutive start/end pairing, positional pairing with the requests); decoder "
    "dispatch (array classes decoded with length=elements, single-element unwrapping, visible-attribute projection of "
    "structures); agreement of the dict records between producers and consumers (every must-exist key read is written by every "
    "producer); bit extraction operators; BOOL-array word arithmetic constants (32 = DWORD bits) and the ceiling idiom for the "
    "element count; the reported type strings; hidden members never leave StructTag._decode at any nesting depth. Value equality with controller memory is a run-time fact and is not decided."
)
ASSUMPTIONS = ["the uploaded tag database describes the controller (C05)", "codec correctness is decided under C06/C07"]


@rule(P, "D1.1", "T-SIB", floor=4)
def d1_1(ctx):
    """Both reply-splitting sites: same structure marker, header 4 bytes when it matches else 2; parse_value re-prepends the removed header."""
    marker = ctx.folder.module_value("pycomm3.const", "STRUCTURE_READ_REPLY")
    want = bytes.fromhex(ctx.spec("services")["structure_type_marker"])
    cm = ctx.model.module("pycomm3.const")
    ctx.check(marker == want, "pycomm3.const:STRUCTURE_READ_REPLY", cm.symbols["STRUCTURE_READ_REPLY"].node, "structure marker = A0 02", f"STRUCTURE_READ_REPLY is {marker!r}; a structure read reply starts with A0 02", got=marker)
    # site 1: parse_read_reply
    fn = ctx.model.func(f"{PU}:parse_read_reply")
    f = fn.node
    datap = f.args.args[0].arg
    isv = [n for n in walk(f) if isinstance(n, ast.Assign) and isinstance(n.value, ast.Compare) and isinstance(n.value.left, ast.Subscript) and atom_name(n.value.left.value) == datap]
    ok = False
    facts = {}
    if len(isv) == 1:
        cmpn = isv[0].value
        hi = ctx.folder.eval(cmpn.left.slice.upper, fn.module) if isinstance(cmpn.left.slice, ast.Slice) and cmpn.left.slice.upper is not None else None
        mk = ctx.folder.eval(cmpn.comparators[0], fn.module)
        flag = atom_name(isv[0].targets[0])
        st = [n for n in walk(f) if isinstance(n, ast.IfExp) and atom_name(n.test) == flag and isinstance(n.body, ast.Subscript) and isinstance(n.orelse, ast.Subscript)]
        if st:
            a = ctx.folder.eval(st[0].body.slice.lower, fn.module)
            b = ctx.folder.eval(st[0].orelse.slice.lower, fn.module)
            facts = {"marker": mk, "marker_len": hi, "struct_header": a, "atomic_header": b}
            ok = mk == want and hi == len(want) and a == 4 and b == 2 and isinstance(cmpn.ops[0], ast.Eq) and atom_name(st[0].body.value) == datap and st[0].body.slice.upper is None
    ctx.check(ok, ckey(fn, "header-split"), f, "value bytes start after 4 header bytes for structures (marker A0 02) else after 2", f"parse_read_reply splits the type header as {facts}; expected marker A0 02 -> 4 bytes, else 2", **{k: str(v) for k, v in facts.items()})
    # site 2: fragmented response
    c = ctx.model.cls(f"{PL}:ReadTagFragmentedResponsePacket")
    pr = c.methods["_parse_reply"]
    ifs = [n for n in walk(pr) if isinstance(n, ast.If) and isinstance(n.test, ast.Compare) and isinstance(n.test.left, ast.Subscript) and attr_path(n.test.left.value) == "self.data"]
    ok = False
    facts = {}
    if len(ifs) == 1:
        t = ifs[0].test
        mk = ctx.folder.eval(t.comparators[0], c.module)
        hi = ctx.folder.eval(t.left.slice.upper, c.module)
        def cuts(stmts):
            out = {}
            for s in stmts:
                if isinstance(s, ast.Assign) and isinstance(s.value, ast.Subscript) and attr_path(s.value.value) == "self.data" and isinstance(s.value.slice, ast.Slice):
                    lo = ctx.folder.eval(s.value.slice.lower, c.module) if s.value.slice.lower is not None else None
                    up = ctx.folder.eval(s.value.slice.upper, c.module) if s.value.slice.upper is not None else None
                    out[attr_path(s.targets[0])] = (lo, up)
            return out
        a, b = cuts(ifs[0].body), cuts(ifs[0].orelse)
        facts = {"marker": mk, "struct": a, "atomic": b}
        ok = mk == want and hi == len(want) and a == {"self.value_bytes": (4, None), "self._data_type": (None, 4)} and b == {"self.value_bytes": (2, None), "self._data_type": (None, 2)}
    ctx.check(ok, ckey(c.key + "._parse_reply", "header-split"), pr, "value_bytes = data[4:] / data[2:], header kept as data[:4] / data[:2]", f"the fragmented reply splits the type header as {facts}", **{k: str(v) for k, v in facts.items()})
    pv = c.methods["parse_value"]
    calls = [x for x in walk(pv) if isinstance(x, ast.Call) and call_name(x) == "parse_read_reply"]
    ok = len(calls) == 1 and src(calls[0].args[0]).replace(" ", "") == "self._data_type+self.value_bytes" and [attr_path(a) for a in calls[0].args[1:]] == ["self.request.tag_info", "self.request.elements"]
    ctx.check(ok, ckey(c.key + ".parse_value"), pv, "reassembled value is parsed as header + all value bytes with the request's tag info and element count", "parse_value does not re-prepend the removed type header / uses other tag info")
    r = ctx.model.cls(f"{PL}:ReadTagResponsePacket")
    pr = r.methods["_parse_reply"]
    calls = [x for x in walk(pr) if isinstance(x, ast.Call) and call_name(x) == "parse_read_reply"]
    ok = len(calls) == 1 and [attr_path(a) for a in calls[0].args] == ["self.data", "self.tag_info", "self.elements"]
    guard = any(isinstance(n, ast.If) and "self.is_valid()" in src(n.test) and "dont_parse" in src(n.test) for n in walk(pr))
    ctx.check(ok and guard, ckey(r.key + "._parse_reply", "decode-call"), pr, "valid replies are decoded from the reply data with the request's tag info and element count", "ReadTagResponsePacket no longer decodes (data, tag_info, elements) of its own request when valid")


@rule(P, "D1.2", "T-SPEC", floor=5)
def d1_2(ctx):
    """Multi-service reply demultiplexing: padding equals the service-byte offset of the embedded parser; count/offset table layout; pairing."""
    c = ctx.model.cls(f"{PL}:MultiServiceResponsePacket")
    pr = c.methods["_parse_reply"]
    sp = ctx.spec("reply")["connected"]
    pad = None
    for n in walk(pr):
        if isinstance(n, ast.Assign) and atom_name(n.targets[0]) == "padding":
            v = ctx.folder.eval(n.value, c.module)
            pad = len(v) if isinstance(v, bytes) else None
            zero = isinstance(v, bytes) and not any(v)
    ctx.check(pad == sp["service"], ckey(c.key + "._parse_reply", "padding"), pr, f"each embedded reply is padded with {sp['service']} bytes so its service byte sits where the connected parser reads it",
              f"embedded replies are padded with {pad} bytes but SendUnitDataResponsePacket reads the service at {sp['service']}, status at {sp['general_status']}, data at {sp['data']}: every sub-reply is mis-parsed", padding=pad)
    use = [x for x in walk(pr) if isinstance(x, ast.Call) and attr_path(x.func) == "request.response_class" and len(x.args) == 2]
    ok = len(use) == 1 and src(use[0].args[1]).replace(" ", "") == "padding+data"
    ctx.check(ok, ckey(c.key + "._parse_reply", "padded-data"), pr, "sub-response raw data = padding + embedded reply", "sub-responses are not built from padding + embedded reply bytes")
    # count at 0 (UINT), table from 2, entries UINT
    cnt = [n for n in walk(pr) if isinstance(n, ast.Assign) and atom_name(n.targets[0]) == "num_replies"]
    ok_cnt = len(cnt) == 1 and isinstance(cnt[0].value, ast.Call) and attr_path(cnt[0].value.func) == "UINT.decode" and attr_path(cnt[0].value.args[0]) == "self.data"
    tbl = [n for n in walk(pr) if isinstance(n, ast.Assign) and atom_name(n.targets[0]) == "offset_data"]
    ok_tbl = False
    if tbl and isinstance(tbl[0].value, ast.Subscript) and isinstance(tbl[0].value.slice, ast.Slice):
        lo = lin(tbl[0].value.slice.lower)
        hi = lin(tbl[0].value.slice.upper)
        ok_tbl = attr_path(tbl[0].value.value) == "self.data" and lo == Lin(2) and hi == Lin(2, {"num_replies": 2})
    ent = [n for n in walk(pr) if isinstance(n, ast.GeneratorExp) and isinstance(n.elt, ast.Call) and attr_path(n.elt.func) == "UINT.decode"]
    ok_ent = False
    if ent:
        g = ent[0].generators[0]
        i = atom_name(g.target)
        sl = ent[0].elt.args[0]
        ok_ent = isinstance(sl, ast.Subscript) and atom_name(sl.value) == "offset_data" and atom_name(sl.slice.lower) == i and lin(sl.slice.upper) == Lin(2, {i: 1}) and isinstance(g.iter, ast.Call) and call_name(g.iter) == "range" and [src(a).replace(" ", "") for a in g.iter.args] == ["0", "len(offset_data)", "2"]
    ctx.check(ok_cnt and ok_tbl and ok_ent, ckey(c.key + "._parse_reply", "offset-table"), pr, "UINT count at 0; UINT offsets at data[2 : 2+2n]", f"multi-service reply table parsing changed (count={ok_cnt}, table={ok_tbl}, entries={ok_ent})")
    # consecutive pairing: tee + advance end by one + zip_longest; slices self.data[i:j]
    tee = any(isinstance(x, ast.Call) and call_name(x) == "tee" for x in walk(pr))
    adv = [x for x in walk(pr) if isinstance(x, ast.Call) and call_name(x) == "next" and atom_name(x.args[0]) == "end"]
    zl = [x for x in walk(pr) if isinstance(x, ast.Call) and call_name(x) == "zip_longest" and [atom_name(a) for a in x.args] == ["start", "end"]]
    sl = [n for n in walk(pr) if isinstance(n, ast.ListComp) and isinstance(n.elt, ast.Subscript) and attr_path(n.elt.value) == "self.data" and isinstance(n.elt.slice, ast.Slice)]
    ok = tee and len(adv) == 1 and len(zl) == 1 and len(sl) == 1 and [atom_name(x) for x in sl[0].generators[0].target.elts] == [atom_name(sl[0].elt.slice.lower), atom_name(sl[0].elt.slice.upper)]
    ctx.check(ok, ckey(c.key + "._parse_reply", "slicing"), pr, "reply i = data[offset_i : offset_{i+1}] (last one to the end)", "embedded replies are not cut at consecutive offsets")
    # offsets written by the request side are relative to the count field too
    q = ctx.model.cls(f"{PL}:MultiServiceRequestPacket")
    bm = q.methods["build_message"]
    first = [n for n in walk(bm) if isinstance(n, ast.Assign) and atom_name(n.targets[0]) == "offset"]
    ok = len(first) == 1 and lin(first[0].value) == Lin(2, {"num_requests": 2})
    upd = [n for n in walk(bm) if isinstance(n, ast.AugAssign) and atom_name(n.target) == "offset"]
    ok = ok and len(upd) == 1 and src(upd[0].value).replace(" ", "") == "len(msg)"
    ctx.check(ok, ckey(q.key + ".build_message", "offsets"), bm, "request offsets start at 2 + 2n and advance by each embedded message length", "multi-service request offsets are not 2 + 2n + running message lengths")


@rule(P, "D1.4", "T-SIB", floor=3)
def d1_4(ctx):
    """parse_read_reply: arrays decoded with length=elements; [0] unwrapped only for one non-bit element; structures projected to visible attributes."""
    fn = ctx.model.func(f"{PU}:parse_read_reply")
    f = fn.node
    dtp, elp = f.args.args[1].arg, f.args.args[2].arg
    arr = [n for n in walk(f) if isinstance(n, ast.If) and isinstance(n.test, ast.Call) and call_name(n.test) == "issubclass" and atom_name(n.test.args[1]) == "ArrayType"]
    ok = False
    if len(arr) == 1:
        a = arr[0]
        dec = [s for s in a.body if isinstance(s, ast.Assign) and isinstance(s.value, ast.Call) and attr_path(s.value.func) == "_type.decode"]
        kw = {k.arg: atom_name(k.value) for k in dec[0].value.keywords} if dec else {}
        ok = bool(dec) and atom_name(dec[0].value.args[0]) == "stream" and kw == {"length": elp}
        els = [s for s in a.orelse if isinstance(s, ast.Assign) and isinstance(s.value, ast.Call) and attr_path(s.value.func) == "_type.decode"]
        ok = ok and bool(els) and [atom_name(x) for x in els[0].value.args] == ["stream"] and not els[0].value.keywords
    ctx.check(ok, ckey(fn, "dispatch"), f, "array classes decode `elements` items; others decode one value from the same stream", "array tags are not decoded with length=elements / scalars not from the value stream")
    tc = [n for n in walk(f) if isinstance(n, ast.Assign) and atom_name(n.targets[0]) == "_type"]
    ok = len(tc) == 1 and src(tc[0].value).replace('"', "'") == f"{dtp}['type_class']"
    ctx.check(ok, ckey(fn, "type-class"), f, "decoder = the tag's uploaded type_class", "the decoder is not the tag definition's type_class")
    un = [n for n in walk(f) if isinstance(n, ast.If) and isinstance(n.test, ast.BoolOp) and isinstance(n.test.op, ast.And) and any(isinstance(s, ast.Assign) and isinstance(s.value, ast.Subscript) and ctx.folder.eval(s.value.slice, fn.module) == 0 for s in n.body)]
    ok = False
    if len(un) == 1:
        vals = un[0].test.values
        c0 = cmp_norm(vals[0])
        one = c0 is not None and c0[0] == "==0" and c0[1].terms == {elp: 1} and c0[1].const == -1
        nb = isinstance(vals[1], ast.UnaryOp) and isinstance(vals[1].op, ast.Not) and isinstance(vals[1].operand, ast.Call) and call_name(vals[1].operand) == "issubclass" and attr_path(vals[1].operand.args[0]) == "_type.element_type" and atom_name(vals[1].operand.args[1]) == "BitArrayType"
        ok = one and nb and len(vals) == 2
    ctx.check(ok, ckey(fn, "unwrap"), un[0] if un else f, "a single element is unwrapped only when elements == 1 and the element type is not a bit array", "the single-element unwrap condition changed (lists for scalars or scalars for BOOL arrays)")
    # projection sites: the dict comprehension inline, or inside a helper of this module called with the decoded value
    sites = []
    for n in walk(f):
        if isinstance(n, ast.DictComp):
            sites.append((n, n, dtp, None))
        elif isinstance(n, ast.Call) and isinstance(n.func, ast.Name):
            h = ctx.model.functions.get(f"{fn.module.name}:{n.func.id}")
            if h is not None:
                for d in walk(h.node):
                    if isinstance(d, ast.DictComp):
                        params = [a.arg for a in h.node.args.args]
                        sites.append((d, n, None, dict(zip(params, n.args))))
    ok = bool(sites)
    why = []
    for d, at, dt_name, binding in sites:
        g = d.generators[0]
        it = src(g.iter).replace('"', "'")
        if binding is not None:
            dts = [p_ for p_, a in binding.items() if atom_name(a) == dtp]
            dt_name = dts[0] if dts else None
        shape = dt_name is not None and it == f"{dt_name}['data_type']['attributes']" and atom_name(d.key) == atom_name(g.target) and isinstance(d.value, ast.Subscript) and atom_name(d.value.slice) == atom_name(g.target) and not g.ifs
        guard = next((a for a in ancestors(at) if isinstance(a, ast.If) and any(at is x for s_ in a.body for x in walk(s_))), None)
        conj = []
        if guard is not None:
            conj = guard.test.values if isinstance(guard.test, ast.BoolOp) and isinstance(guard.test.op, ast.And) else [guard.test]
        has_struct = any(atom_name(c) == "is_struct" for c in conj)
        not_string = any(isinstance(c, ast.UnaryOp) and isinstance(c.op, ast.Not) and isinstance(c.operand, ast.Call) and call_name(c.operand) == "issubclass" and atom_name(c.operand.args[1]) == "StringDataType" for c in conj)
        if not (shape and has_struct and not_string):
            ok = False
            why.append(f"{src(d)[:80]} under `{src(guard.test) if guard is not None else None}`")
    ctx.check(ok, ckey(fn, "projection"), sites[0][0] if sites else f, "structure values are projected to the definition's visible attributes (strings excepted)", f"structure projection to data_type['attributes'] is missing, renames members or is applied to strings / non-structures: {why}")
    stream = [n for n in walk(f) if isinstance(n, ast.Assign) and atom_name(n.targets[0]) == "stream" and isinstance(n.value, ast.Call) and call_name(n.value) == "BytesIO"]
    ctx.check(len(stream) == 1, ckey(fn, "stream"), f, "one value stream per reply", "value stream construction changed")


KEY_CONSUMERS = ("read", "write", "_read_build_multi_requests", "_read_build_single_request", "_write_build_multi_requests", "_write_build_single_request")
REQ_NAMES = ("request_data", "parsed_tag", "tag_data")


@rule(P, "D1.5", "T-KEYS", floor=20)
def d1_5(ctx):
    """Record shape: every must-exist key read from the parsed-request record / tag-definition record is written by every producer."""
    lx = ctx.model.cls(f"{LX}:LogixDriver")
    # --- parsed-request record
    ptr = lx.methods["_parse_tag_request"]
    rets = [r for r in walk(ptr) if isinstance(r, ast.Return) and isinstance(r.value, ast.Dict)]
    produced = set()
    for r in rets:
        keys = {ctx.folder.eval(k, lx.module) for k in r.value.keys if k is not None}
        produced = keys if not produced else produced & keys
    prt = lx.methods["_parse_requested_tags"]
    for n in walk(prt):
        if isinstance(n, ast.Dict):
            ks = {ctx.folder.eval(k, lx.module) for k in n.keys if k is not None}
            if "request_id" in ks:
                produced |= ks
    # keys added later on every path before the consumers: "value" (write), "write_value" (builders)
    w = lx.methods["write"]
    if any(isinstance(n, ast.Assign) and isinstance(n.targets[0], ast.Subscript) and ctx.folder.eval(n.targets[0].slice, lx.module) == "value" for n in walk(w)):
        produced.add("value")
    late = {"write_value", "error"}
    n_reads = 0
    for mname in KEY_CONSUMERS:
        fn = lx.methods[mname]
        for n in walk(fn):
            if isinstance(n, ast.Subscript) and isinstance(n.ctx, ast.Load) and isinstance(n.slice, ast.Constant) and isinstance(n.slice.value, str):
                base = n.value
                nm = atom_name(base)
                if nm in REQ_NAMES or (isinstance(base, ast.Subscript) and atom_name(base.value) == "parsed_requests"):
                    k = n.slice.value
                    n_reads += 1
                    if k in late:
                        # must be stored earlier in the same function on the path (dominance)
                        g = ctx.cfg(fn)
                        st = n
                        while not isinstance(st, ast.stmt):
                            st = getattr(st, "_parent")
                        use = g.nodes_of(st)
                        stores = [x for x in g.nodes if x.kind == "stmt" and isinstance(x.ast, ast.Assign) and isinstance(x.ast.targets[0], ast.Subscript) and isinstance(x.ast.targets[0].slice, ast.Constant) and x.ast.targets[0].slice.value == k]
                        tests = [t for t in g.nodes if t.kind == "test" and k in src(t.ast)]
                        doms = g.dominators().get(use[0], set()) if use else set()
                        ok = any(s in doms for s in stores) or any(t in doms for t in tests) or (use and any(s is use[0] for s in stores))
                        ctx.check(bool(ok), ckey(f"{lx.key}.{mname}", f"key:{k}#{n.lineno - fn.lineno}"), n, f"'{k}' is stored/tested before it is read", f"'{k}' is read from the request record without being stored on this path")
                        continue
                    ctx.check(k in produced, ckey(f"{lx.key}.{mname}", f"key:{k}"), n, f"'{k}' is written by the request parser", f"request record key '{k}' is read here but no producer writes it (KeyError turns every such request into an error Tag)", produced=sorted(produced))
    ev = ctx.model.func(f"{LX}:encode_value")
    for n in walk(ev.node):
        if isinstance(n, ast.Subscript) and isinstance(n.ctx, ast.Load) and atom_name(n.value) == "parsed_tag" and isinstance(n.slice, ast.Constant):
            ctx.check(n.slice.value in produced, ckey(ev, f"key:{n.slice.value}"), n, f"'{n.slice.value}' is written by the request parser", f"encode_value reads request key '{n.slice.value}' that no producer writes", produced=sorted(produced))
    # --- tag-definition record: keys of _create_tag and member records
    ct = lx.methods["_create_tag"]
    tag_keys = set()
    for n in walk(ct):
        if isinstance(n, ast.Dict):
            tag_keys |= {ctx.folder.eval(k, lx.module) for k in n.keys if k is not None}
        if isinstance(n, ast.Assign) and isinstance(n.targets[0], ast.Subscript) and atom_name(n.targets[0].value) == "new_tag" and isinstance(n.targets[0].slice, ast.Constant):
            tag_keys.add(n.targets[0].slice.value)
        if isinstance(n, ast.Assign) and atom_name(n.targets[0]) == "copy_keys" and isinstance(n.value, ast.List):
            tag_keys |= {e.value for e in n.value.elts if isinstance(e, ast.Constant)}
    mi = lx.methods["_parse_template_data_member_info"]
    mem_keys = set()
    for n in walk(mi):
        if isinstance(n, ast.Dict):
            mem_keys |= {ctx.folder.eval(k, lx.module) for k in n.keys if k is not None}
        if isinstance(n, ast.Assign) and isinstance(n.targets[0], ast.Subscript) and atom_name(n.targets[0].value) == "member" and isinstance(n.targets[0].slice, ast.Constant):
            # unconditional stores only
            if getattr(n, "_parent", None) is mi:
                mem_keys.add(n.targets[0].slice.value)
    both = tag_keys & mem_keys
    consumers = [ctx.model.func(f"{PU}:parse_read_reply"), ctx.model.func(f"{LX}:_tag_return_size"), ev]
    consumers += [ctx.model.func(f"{PL}:WriteTagRequestPacket.__init__"), ctx.model.func(f"{PL}:ReadModifyWriteRequestPacket.__init__"), ctx.model.func(f"{PU}:tag_request_path")]
    for fi in consumers:
        for n in walk(fi.node):
            if isinstance(n, ast.Subscript) and isinstance(n.ctx, ast.Load) and isinstance(n.slice, ast.Constant) and isinstance(n.slice.value, str):
                nm = atom_name(n.value)
                direct = nm in ("tag_info", "data_type") and fi.qualname != "encode_value" or (isinstance(n.value, ast.Subscript) and src(n.value).replace('"', "'") in ("parsed_tag['tag_info']", "tag_data['tag_info']"))
                if direct and n.slice.value in ("data_type", "data_type_name", "type_class", "tag_type", "instance_id"):
                    k = n.slice.value
                    if k == "instance_id":
                        continue  # guarded by tag_info.get('instance_id') in tag_request_path
                    ctx.check(k in both, ckey(fi, f"tagkey:{k}"), n, f"'{k}' is defined for tags and structure members alike", f"tag definition key '{k}' is read here but is not written for both base tags and structure members", tag_keys=sorted(tag_keys), member_keys=sorted(mem_keys))
    if n_reads < 20:
        ctx.undecided(ckey(lx.key, "request-record-reads"), lx.node, f"only {n_reads} request-record reads found")


@rule(P, "D1.6", "T-WITNESS", floor=3)
def d1_6(ctx):
    """Bit extraction: integer bit = value & (1 << bit); BOOL array = slice [bit : bit + n] / index [bit]; the interpretation
    follows the tag's type.  Decided by folding `read` on witness replies (the obligations of D1.14): an earlier form of this
    rule matched the expression shapes and raised an alarm on `(value >> bit) & 1`, which behaves the same."""
    from .driver import d1_14

    d1_14(ctx)


@rule(P, "D1.7", "T-UNIT", floor=5)
def d1_7(ctx):
    """BOOL-array word arithmetic: every constant is DWORD.size * 8; reads address element [0], writes word idx // 32; element count = ceil((bit + count) / 32)."""
    dw = ctx.model.cls(f"{DT}:DWORD")
    bits = ctx.folder.class_attr(dw, "size")
    bits = bits * 8 if isinstance(bits, int) else None
    want = ctx.spec("logix_symbol")["bool_array_word_bits"]
    ctx.check(bits == want, ckey(dw.key, "bits"), dw.node, f"a BOOL-array word holds {want} bits", f"DWORD holds {bits} bits")
    fn = ctx.model.func(f"{LX}:LogixDriver._parse_tag_request")
    f = fn.node
    blk = [n for n in walk(f) if isinstance(n, ast.If) and "DWORD" in src(n.test)]
    ok = False
    facts = {}
    if len(blk) == 1:
        b = blk[0]
        consts = sorted({ctx.folder.eval(x.right, fn.module) for x in walk(b) if isinstance(x, ast.BinOp) and isinstance(x.op, (ast.FloorDiv, ast.Mod))})
        facts["constants"] = consts
        # read -> [0], write -> [idx // 32]
        tagasg = [x for x in walk(b) if isinstance(x, ast.Assign) and atom_name(x.targets[0]) == "tag" and isinstance(x.value, ast.IfExp)]
        rd_wr = False
        if tagasg:
            e = tagasg[0].value
            rd_wr = src(e.test).replace(" ", "").replace('"', "'") == "rw=='r'" and "[0]" in src(e.body) and "idx//32" in src(e.orelse).replace(" ", "")
        # element count ceiling
        el = [x for x in walk(b) if isinstance(x, ast.Assign) and atom_name(x.targets[0]) == "elements"]
        ceil_ok = False
        if el:
            v = el[0].value
            s_ = src(v).replace(" ", "")
            ceil_ok = s_ in ("total_size//32+(1iftotal_size%32else0)", "(total_size+31)//32", "-(-total_size//32)", "(total_size//32)+(1iftotal_size%32else0)".replace("(total_size//32)", "total_size//32"))
        ts = [x for x in walk(b) if isinstance(x, ast.Assign) and atom_name(x.targets[0]) == "total_size"]
        ts_ok = bool(ts) and src(ts[0].value).replace(" ", "") == "(bitor0)+elements"
        bitidx = any(isinstance(x, ast.Assign) and atom_name(x.targets[0]) == "bit" and atom_name(x.value) == "idx" for x in walk(b))
        facts.update({"read_write": rd_wr, "ceil": ceil_ok, "total": ts_ok, "bit_is_index": bitidx})
        ok = consts == [want] and rd_wr and ceil_ok and ts_ok and bitidx
    ctx.check(ok, ckey(fn, "dword-arithmetic"), blk[0] if blk else f, "reads address word 0 and keep the bit index; writes address word idx // 32; elements = ceil((bit + count) / 32)", f"BOOL-array request arithmetic deviates: {facts}", **{k: str(v) for k, v in facts.items()})
    pr = ctx.model.func(f"{PU}:parse_read_reply")
    m = [x for x in walk(pr.node) if isinstance(x, ast.BinOp) and isinstance(x.op, ast.Mult) and atom_name(x.left) == pr.node.args.args[2].arg]
    ok = len(m) == 1 and ctx.folder.eval(m[0].right, pr.module) == want
    ctx.check(ok, ckey(pr, "bool-count"), m[0] if m else pr.node, "a DWORD array of n elements is reported as BOOL[n * 32]", "BOOL count of a DWORD array is not elements * 32")
    ev = ctx.model.func(f"{LX}:encode_value")
    consts = sorted({ctx.folder.eval(x.right, ev.module) for x in walk(ev.node) if isinstance(x, ast.BinOp) and isinstance(x.op, (ast.FloorDiv, ast.Mod))})
    ctx.check(consts == [want], ckey(ev, "dword-constants"), ev.node, "alignment test and word index use 32", f"encode_value uses word constants {consts}")
    sb = ctx.model.cls(f"{PL}:ReadModifyWriteRequestPacket").methods["set_bit"]
    consts = sorted({ctx.folder.eval(x.value, ev.module) for x in walk(sb) if isinstance(x, ast.AugAssign) and isinstance(x.op, ast.Mod)})
    ctx.check(consts == [want], ckey(f"{PL}:ReadModifyWriteRequestPacket.set_bit", "dword-constant"), sb, "bit index reduced modulo 32", f"set_bit reduces the bit index modulo {consts}")


@rule(P, "D1.8", "T-TT", floor=3)
def d1_8(ctx):
    """Type strings: `[n]` exactly when elements > 1; BOOL[n*32] for DWORD arrays; BOOL / BOOL[k] for bit and BOOL-range reads."""
    pr = ctx.model.func(f"{PU}:parse_read_reply")
    f = pr.node
    elp = f.args.args[2].arg
    chain = [n for n in walk(f) if isinstance(n, ast.If) and isinstance(n.test, ast.Compare) and atom_name(n.test.left) == "dt_name"]
    ok = False
    if len(chain) == 1:
        c = chain[0]
        dword = ctx.folder.eval(c.test.comparators[0], pr.module) == "DWORD" and any(isinstance(s, ast.Assign) and isinstance(s.value, ast.JoinedStr) and "BOOL[" in src(s.value) for s in c.body)
        el = c.orelse[0] if len(c.orelse) == 1 and isinstance(c.orelse[0], ast.If) else None
        many = False
        if el is not None:
            cc = cmp_norm(el.test)
            many = cc is not None and cc[0] == "<=0" and cc[1].terms == {elp: -1} and cc[1].const == 2 and any(isinstance(s, ast.Assign) and isinstance(s.value, ast.JoinedStr) and "{dt_name}[{" + elp + "}]" in src(s.value) for s in el.body) and not el.orelse
        ok = dword and many
    ctx.check(ok, ckey(pr, "type-string"), chain[0] if chain else f, "DWORD -> BOOL[n*32]; elements > 1 -> name[n]; else the bare name", "reported type strings changed (count suffix / BOOL-array naming)")
    rets = [r for r in walk(f) if isinstance(r, ast.Return)]
    ok = len(rets) == 1 and isinstance(rets[0].value, ast.Tuple) and [atom_name(x) for x in rets[0].value.elts] == ["_value", "dt_name"]
    ctx.check(ok, ckey(pr, "returns"), f, "returns (value, type string)", "parse_read_reply no longer returns (value, type string)")
    rd = ctx.model.func(f"{LX}:LogixDriver.read")
    tags = [c for c in walk(rd.node) if isinstance(c, ast.Call) and call_name(c) == "Tag" and len(c.args) >= 3]
    types = sorted({src(c.args[2]) for c in tags})
    ok = "'BOOL'" in types and "data_type" in types and any(isinstance(n, ast.Assign) and atom_name(n.targets[0]) == "data_type" and isinstance(n.value, ast.JoinedStr) and src(n.value) == "f'BOOL[{bool_elements}]'" for n in walk(rd.node))
    ctx.check(ok, ckey(rd, "bit-type-strings"), rd.node, "bit reads report BOOL, BOOL ranges report BOOL[k]", f"type strings of bit / BOOL-range reads changed: {types}", types=types)
    names = [c for c in tags if src(c.args[0]).replace('"', "'") == "request_data['user_tag']"]
    ctx.check(len(names) >= 3, ckey(rd, "user-tag"), rd.node, "results carry the user's tag name without the element suffix", "results no longer carry request_data['user_tag']")


@rule(P, "D1.9", "T-DATAFLOW", floor=2)
def d1_9(ctx):
    """The BOOL-array index helper splits name and index at the same (last) bracket; _parse_tag_request uses it for both."""
    fn = ctx.model.func("pycomm3.util:get_array_index")
    f = fn.node
    last_ops, first_ops = [], []
    for c in walk(f):
        if isinstance(c, ast.Call):
            nm = call_name(c) or ""
            arg0 = ctx.folder.eval(c.args[0], fn.module) if c.args else None
            if nm.endswith((".rsplit", ".rfind", ".rindex", ".rpartition")) and arg0 == "[":
                last_ops.append(src(c))
            elif nm.endswith((".split", ".find", ".index", ".partition")) and arg0 == "[":
                first_ops.append(src(c))
            elif nm in ("strip_array",) or nm.endswith(".strip_array"):
                first_ops.append(src(c))
    ctx.check(bool(last_ops) and not first_ops, ckey(fn, "same-bracket"), f, "name and index are both taken at the last `[`",
              f"get_array_index locates brackets with {first_ops} (first bracket) and {last_ops} (last bracket): for a nested path such as `udts[2].flags[5]` the name and the index come from different brackets", first=first_ops, last=last_ops)
    rets = [r for r in walk(f) if isinstance(r, ast.Return)]
    ok = len(rets) == 1 and isinstance(rets[0].value, ast.Tuple) and len(rets[0].value.elts) == 2
    conv = any(isinstance(c, ast.Call) and call_name(c) == "int" for c in walk(f))
    ctx.check(ok and conv, ckey(fn, "returns"), f, "returns (name, int index)", "get_array_index no longer returns (name, int(index))")
    ptr = ctx.model.func(f"{LX}:LogixDriver._parse_tag_request")
    use = [n for n in walk(ptr.node) if isinstance(n, ast.Assign) and isinstance(n.value, ast.Call) and (call_name(n.value) or "").endswith("get_array_index")]
    ok = len(use) == 1 and isinstance(use[0].targets[0], ast.Tuple) and [atom_name(x) for x in use[0].targets[0].elts] == ["_tag", "idx"] and atom_name(use[0].value.args[0]) == "tag"
    ctx.check(ok, ckey(ptr, "uses-helper"), use[0] if use else ptr.node, "the request's BOOL-array name and index come from one get_array_index(tag) call", "BOOL-array name and index are not taken from one get_array_index(tag) call")


@rule(P, "D1.10", "T-FILTER", floor=2)
def d1_10(ctx):
    """Hidden members never reach a decoded structure value at any nesting depth: StructTag._decode (which nested members
    decode through) returns only names outside cls.private; the reply-level projection alone covers the outermost level only."""
    from .common import CT, structtag_visible_only

    tag = ctx.model.cls(f"{CT}:StructTag.StructTag")
    res = structtag_visible_only(ctx, tag)
    if res is None:
        ctx.undecided(ckey(tag.key, "_decode#visible-only"), tag.node, "StructTag._decode not found")
        return
    ctx.check(bool(res), ckey(tag.key, "_decode#returns"), tag.methods["_decode"], "decode returns a value", "StructTag._decode returns nothing")
    for i, (ok, how, node) in enumerate(res):
        ctx.check(ok, ckey(tag.key, f"_decode#visible-only{'' if not i else i}"), node, how,
                  "StructTag._decode returns hidden (private/host) members: a structure nested in another structure or array element shows its ZZZZZZZZZZ*/CTL host members in read values")


@rule(P, "D1.3", "T-ACC", floor=4)
def d1_3(ctx):
    """Fragment reassembly by byte offset: the next request offset is the number of value bytes received so far, the loop
    continues exactly on 'more data', the value bytes are joined in order - the same obligations as D4.5, owned here for
    'a read returns exactly what the controller holds' (a wrong offset drops or repeats bytes of the value)."""
    from .C04 import d4_5

    d4_5(ctx)


@rule(P, "D1.11", "T-WITNESS", floor=20)
def d1_11(ctx):
    """_parse_tag_request folded on one witness request per form (sa/miniinterp.py; the tag-definition look-up is a witness):
    plain tags, `{n}`, `[i]`, members, program scope, `.bit` on integers, BOOL-array elements and ranges (read and write
    direction).  The record must carry the controller tag to address, the element count to request, the bit index and the
    BOOL count that an independent reading of the request gives."""
    from ..miniinterp import Obj, run_function

    lx = ctx.model.cls(f"{LX}:LogixDriver")
    fn = lx.methods["_parse_tag_request"]
    p_tag = fn.args.args[1].arg
    p_rw = fn.args.args[2].arg if len(fn.args.args) > 2 else "rw"
    dint, dword, udt = {"data_type": "DINT", "tag_type": "atomic"}, {"data_type": "DWORD", "tag_type": "atomic"}, {"data_type": {"name": "MyUdt"}, "tag_type": "struct"}
    infos = {"d": dint, "arr": dint, "flags": dword, "udt": udt, "udtarr": udt, "Program:Main.d": dint, "Program:Main.flags": dword}

    def hook(call, env, it):
        if attr_path(call.func) == "self._get_tag_info":
            base = it.ev(call.args[0], env)
            attrs = it.ev(call.args[1], env)
            hook.seen.append((base, list(attrs)))
            from ..miniinterp import Raise

            stripped = base.split("[")[0]
            if stripped not in infos:
                raise Raise("KeyError")
            base = stripped
            if attrs:
                return {"data_type": "DWORD", "tag_type": "atomic"} if attrs[-1].startswith("bits") else dint
            return infos[base]
        return UNKNOWN

    #          request            rw   plc_tag          elements bit   bool_elements  lookup
    W = [
        ("d", "r", "d", 1, None, None, ("d", [])), ("d{5}", "r", "d", 5, None, None, ("d", [])), ("arr[3]", "r", "arr[3]", 1, None, None, ("arr[3]", [])),
        ("arr[3]{10}", "r", "arr[3]", 10, None, None, ("arr[3]", [])), ("d.5", "r", "d", 1, 5, None, ("d", [])), ("d.31", "w", "d", 1, 31, None, ("d", [])),
        ("udt.member", "r", "udt.member", 1, None, None, ("udt", ["member"])), ("udt.member.3", "r", "udt.member", 1, 3, None, ("udt", ["member"])),
        ("udtarr[2].member{4}", "r", "udtarr[2].member", 4, None, None, ("udtarr[2]", ["member"])),
        ("Program:Main.d", "r", "Program:Main.d", 1, None, None, ("Program:Main.d", [])), ("Program:Main.d.7", "r", "Program:Main.d", 1, 7, None, ("Program:Main.d", [])),
        ("flags[5]", "r", "flags[0]", 1, 5, None, ("flags[5]", [])), ("flags[37]", "r", "flags[0]", 2, 37, None, ("flags[37]", [])), ("flags[37]", "w", "flags[1]", 2, 37, None, ("flags[37]", [])),
        ("flags[0]{64}", "r", "flags[0]", 2, 0, 64, ("flags[0]", [])), ("flags[20]{20}", "r", "flags[0]", 2, 20, 20, ("flags[20]", [])), ("flags[32]{40}", "w", "flags[1]", 3, 32, 40, ("flags[32]", [])),
        ("flags[3]{1}", "r", "flags[0]", 1, 3, None, ("flags[3]", [])), ("flags{96}", "r", "flags", 3, None, 96, ("flags", [])), ("flags", "r", "flags", 1, None, None, ("flags", [])),
        ("udt.bits[40]", "r", "udt.bits[0]", 2, 40, None, ("udt", ["bits[40]"])),
        ("nosuch", "r", "RequestError", None, None, None, None), ("d{x}", "r", "RequestError", None, None, None, None),
    ]
    for req, rw, plc, n, bit, bools, look in W:
        hook.seen = []
        kind, res = run_function(ctx, lx.module, fn, {"self": witness_instance(lx), p_tag: req, p_rw: rw}, call_hook=hook, deep=False)
        key = ckey(f"{lx.key}._parse_tag_request", f"witness:{req}/{rw}")
        if kind == "unknown":
            ctx.undecided(key, fn, f"_parse_tag_request not foldable on `{req}`: {res}")
            continue
        if plc == "RequestError":
            ctx.check(kind == "raise" and res == "RequestError", key, fn, f"`{req}` is refused with RequestError", f"`{req}` gives {kind} {res!r} instead of RequestError")
            continue
        if kind != "return" or not isinstance(res, dict):
            ctx.violation(key, fn, f"`{req}` ({rw}) gives {kind} {res!r} instead of a request record")
            continue
        got = (res.get("plc_tag"), res.get("elements"), res.get("bit"), res.get("bool_elements"))
        diffs = [f"{k}={g!r} (expected {w!r})" for k, g, w in zip(("plc_tag", "elements", "bit", "bool_elements"), got, (plc, n, bit, bools)) if g != w]
        if look is not None and hook.seen and hook.seen[0] != (look[0], look[1]):
            diffs.append(f"definition looked up as {hook.seen[0]} (expected {look})")
        if res.get("user_tag") != req.split("{")[0]:
            diffs.append(f"user_tag={res.get('user_tag')!r}")
        ctx.check(not diffs, key, fn, f"`{req}` ({rw}) -> {plc} x{n}" + (f" bit {bit}" if bit is not None else "") + (f" bools {bools}" if bools else ""),
                  f"request `{req}` ({'read' if rw == 'r' else 'write'}) is parsed as {diffs}: another element / count / bit is requested than asked for", witness=req)
