"""C19 -- Code tables are total, bidirectional, case-insensitive lookups."""
from __future__ import annotations

import ast

from ..astutil import attr_path, call_name, walk, src, dump
from ..consteval import UNKNOWN, ClassRef, FuncRef, Instance, is_known
from ..framework import rule
from ..linexpr import atom_name
from .common import DT, PU, ckey

P = "C19"
MAP = "pycomm3.map"
EXPLANATION = (
    "Static rules D19.1-D19.5 (DESIGN.md section 5, C19): dataflow shape of MapMeta.__new__ (member selection, lower-case "
    "aliases, reverse map keyed by value_key(value) -> lower-case name, all three merged into _members_), key normalisation "
    "of __getitem__/get/__contains__ before they reach _members_ (same map, same caps-only post-processing), and per-table "
    "obligations over every member of every EnumMap subclass after constant folding (hashable values, no case-insensitive "
    "name collisions, no reverse key shadowing a member name, DataTypes reverse key = type code, code tables against the "
    "specification values), plus the hex fall-back of status texts. The property is finite: every member of every table is "
    "enumerated; MapMeta itself is analysed, not executed."
)
ASSUMPTIONS = ["EnumMap subclasses are not mutated after class creation"]


def _tables(ctx):
    base = ctx.model.cls(f"{MAP}:EnumMap")
    return [c for c in ctx.model.classes.values() if base in c.mro() and c is not base]


def _is_lower_if_str(e, var) -> bool:
    """`var.lower() if isinstance(var, str) else var`"""
    if not isinstance(e, ast.IfExp):
        return False
    t = e.test
    if not (isinstance(t, ast.Call) and call_name(t) == "isinstance" and len(t.args) == 2 and atom_name(t.args[0]) == var and atom_name(t.args[1]) == "str"):
        return False
    return isinstance(e.body, ast.Call) and attr_path(e.body.func) == f"{var}.lower" and not e.body.args and atom_name(e.orelse) == var


@rule(P, "D19.1", "T-WITNESS", floor=5)
def d19_1(ctx):
    """MapMeta.__new__: public members, their lower-case aliases and (unless switched off) the reverse map keyed by the value or
    its `_value_key_` are merged into the one lookup table; private names and class / static methods are not members.  Decided by
    folding `__new__` on witness class bodies (D19.9).  An earlier form matched the three dict comprehensions and the `{**a, **b,
    **c}` merge and alarmed when the same table was built by loops."""
    from .driver import _mapmeta_rule

    _mapmeta_rule(ctx)


@rule(P, "D19.2", "T-WITNESS", floor=4)
def d19_2(ctx):
    """`[]`, `get` and `in` fold text keys to lower case before consulting the same table; `[]` raises KeyError for a missing key;
    caps-only tables upper-case text results in `[]` and `get` alike.  Decided by folding the three methods on witness tables and
    keys (D19.9).  An earlier form compared the statements of `__getitem__` and `get` and alarmed when the shared post-processing
    was moved into a helper."""
    from .driver import _mapmeta_rule

    _mapmeta_rule(ctx)


def _caps_if(i: ast.If) -> bool:
    t = i.test
    if not (isinstance(t, ast.BoolOp) and isinstance(t.op, ast.And) and len(t.values) == 2):
        return False
    a, b = t.values
    if attr_path(a) != "cls._return_caps_only_":
        return False
    if not (isinstance(b, ast.Call) and call_name(b) == "isinstance" and atom_name(b.args[1]) == "str"):
        return False
    v = atom_name(b.args[0])
    return len(i.body) == 1 and isinstance(i.body[0], ast.Assign) and atom_name(i.body[0].targets[0]) == v and isinstance(i.body[0].value, ast.Call) and attr_path(i.body[0].value.func) == f"{v}.upper" and not i.orelse


def _value_key_attr(vk):
    fn = vk.node
    if isinstance(fn, ast.FunctionDef) and fn.args.args:
        rets = [r for r in walk(fn) if isinstance(r, ast.Return)]
        if len(rets) == 1 and isinstance(rets[0].value, ast.Attribute) and atom_name(rets[0].value.value) == fn.args.args[0].arg:
            return rets[0].value.attr
    return None


def _hashable_const(v):
    return isinstance(v, (bytes, int, str, float, tuple, frozenset, ClassRef)) and not isinstance(v, bool) or isinstance(v, bool)


@rule(P, "D19.3", "T-SPEC", floor=15)
def d19_3(ctx):
    """Per-table obligations for every member of every EnumMap table."""
    total = 0
    for t in sorted(_tables(ctx), key=lambda c: c.key):
        members = ctx.folder.enum_members(t)
        key = ckey(t.key)
        total += len(members)
        probs = []
        # values fold to hashable constants
        vk = ctx.folder.class_attr(t, "_value_key_")
        bidir = ctx.folder.class_attr(t, "_bidirectional_")
        bidir = True if bidir is UNKNOWN else bool(bidir)
        caps = ctx.folder.class_attr(t, "_return_caps_only_")
        caps = False if caps is UNKNOWN else bool(caps)
        rev = {}
        lowers = {}
        for name, v in members.items():
            if isinstance(v, FuncRef):
                probs.append(f"{name}: a plain function is selected as a member (only class/static methods are excluded)")
                continue
            if isinstance(v, Instance):
                continue  # e.g. Attribute(...) named tuples: not bidirectional by identity; judged below
            if v is UNKNOWN or not is_known(v):
                probs.append(f"{name}: value does not fold to a constant")
                continue
            low = name.lower()
            if low in lowers and lowers[low][0] != name and repr(lowers[low][1]) != repr(v):
                probs.append(f"{name} and {lowers[low][0]} differ only in case but carry different values")
            lowers[low] = (name, v)
            if bidir:
                if isinstance(vk, FuncRef) and isinstance(v, ClassRef):
                    attr = _value_key_attr(vk)
                    if attr != "code" and f"value-key:{attr}" not in probs:
                        probs.append(f"value-key:{attr}")
                        probs[-1] = f"reverse-lookup key of {t.name} is `{attr}` of the type, not its CIP `code`: codes do not resolve to the type carrying them"
                    code = ctx.folder.class_attr(v.ci, attr or "code")
                    rk = code if isinstance(code, int) else None
                    if rk is None:
                        probs.append(f"{name}: reverse key (type code) does not fold")
                        continue
                elif isinstance(vk, FuncRef):
                    rk = None
                else:
                    rk = v
                if rk is not None:
                    if not _hashable_const(rk):
                        probs.append(f"{name}: reverse key {rk!r} is not hashable")
                        continue
                    rev.setdefault(rk if not isinstance(rk, ClassRef) else repr(rk), []).append(name)
            if caps and isinstance(v, str):
                probs.append(f"{name}: str value in a caps-only table would be upper-cased on lookup")
        for rk, names in rev.items():
            if isinstance(rk, str):
                if rk in members and members[rk] is not UNKNOWN and rk.lower() not in [n.lower() for n in names]:
                    probs.append(f"reverse key {rk!r} (value of {names}) shadows the member named {rk!r}")
                if rk.lower() in lowers and lowers[rk.lower()][0].lower() not in [n.lower() for n in names] and rk.lower() != rk:
                    pass
        ctx.check(not probs, key, t.node, f"{len(members)} members: constants, case-insensitively unique names, reverse keys do not shadow names", "; ".join(probs[:6]), members=len(members), reverse_keys=len(rev))
    ctx.assume(f"{total} members enumerated over all EnumMap tables")


def _cmp_table(ctx, cls_name, spec_rows, as_int=False):
    t = ctx.model.find_class(cls_name)
    members = ctx.folder.enum_members(t)
    for name, hexv in spec_rows.items():
        if name not in members:
            ctx.ok(ckey(t.key, name) + "#unpinned", t.node, "specification row without a member (not judged)")
            continue
        v = members[name]
        want = int(hexv, 16) if as_int else bytes.fromhex(hexv)
        got = v
        if as_int and isinstance(v, bytes):
            got = int.from_bytes(v, "little")
        ctx.check(got == want, ckey(t.key, name), t.attr_nodes.get(name, t.node), f"{cls_name}.{name} = {hexv}", f"{cls_name}.{name} is {v!r}; the specification assigns {hexv}", got=v)


@rule(P, "D19.4", "T-SPEC", floor=40)
def d19_4(ctx):
    """Code values of the service / command / class tables equal the specification."""
    sp = ctx.spec("services")
    _cmp_table(ctx, "Services", sp["Services"])
    _cmp_table(ctx, "ConnectionManagerServices", sp["ConnectionManagerServices"])
    _cmp_table(ctx, "ClassCode", sp["ClassCode"], as_int=True)
    _cmp_table(ctx, "EncapsulationCommands", ctx.spec("encap")["commands"])


@rule(P, "D19.5", "T-WITNESS", floor=3)
def d19_5(ctx):
    """get_service_status: every code of the status table gives the table's text; an unknown code gives a text that names the
    code in hex.  Decided by folding on witness codes; the table's entries are all non-empty texts keyed by integers."""
    from .common import service_status_witnesses

    gss, wit = service_status_witnesses(ctx)
    for ok, role, want, got in wit:
        if ok is None:
            ctx.undecided(ckey(gss, role), gss.node, f"get_service_status not foldable: {got}")
        else:
            ctx.check(ok, ckey(gss, role), gss.node, f"{role}: {want}", f"get_service_status ({role}) gives {got}; expected {want}")
    tbl = ctx.folder.module_value(gss.module.name, "SERVICE_STATUS")
    good = isinstance(tbl, dict) and all(isinstance(k, int) and isinstance(v, str) and v for k, v in tbl.items())
    ctx.check(good, ckey(gss, "table"), gss.node, "status table: integer codes -> non-empty texts", "the status table has entries that are not integer -> non-empty text")


@rule(P, "D19.6", "T-SPEC", floor=30)
def d19_6(ctx):
    """DataTypes.get_type resolves every type code of the table - including the falsy code 0 - to a type that carries it,
    and an unknown code to None: the method is folded for every member code against the table as MapMeta builds it."""
    from ..consteval import ClassRef
    from .common import enum_method_results

    tbl = ctx.model.cls("pycomm3.cip.data_types:DataTypes")
    gt = tbl.methods.get("get_type")
    if gt is None:
        ctx.undecided(ckey(tbl.key + ".get_type"), tbl.node, "anchor vanished")
        return
    members = {k: v for k, v in ctx.folder.enum_members(tbl).items() if isinstance(v, ClassRef)}
    codes = {}
    for name, v in members.items():
        c = ctx.folder.class_attr(v.ci, "code")
        if isinstance(c, int):
            codes.setdefault(c, set()).add(v.ci.name)
    unknown_code = next(x for x in range(1, 4096) if x not in codes)
    res, _, _ = enum_method_results(ctx, tbl, gt, sorted(codes) + [unknown_code])
    for c in sorted(codes):
        r = res[c]
        if r is UNKNOWN:
            ctx.undecided(ckey(tbl.key + ".get_type", f"code:{c:#04x}"), gt, "get_type not foldable for this code")
            continue
        ok = isinstance(r, ClassRef) and r.ci.name in codes[c]
        ctx.check(ok, ckey(tbl.key + ".get_type", f"code:{c:#04x}"), gt, f"get_type({c:#04x}) -> {r.ci.name if isinstance(r, ClassRef) else r!r}",
                  f"DataTypes.get_type({c:#04x}) yields {r.ci.name if isinstance(r, ClassRef) else r!r}; the table maps that code to {sorted(codes[c])} (lookup and type resolution disagree for this code)", code=c)
    r = res[unknown_code]
    ctx.check(r is None, ckey(tbl.key + ".get_type", "unknown-code"), gt, "an unknown code resolves to None", f"get_type of a code outside the table yields {r!r} instead of None", code=unknown_code)


@rule(P, "D19.7", "T-SPEC", floor=20)
def d19_7(ctx):
    """Services.from_reply maps the reply code (request code | 0x80) of every service of the table back to a name of that
    very service, and a reply code of no service to None: the method is folded for every member code (tables of other
    classes it consults are modelled the same way)."""
    from .common import enum_method_results

    svc = ctx.model.cls("pycomm3.cip.services:Services")
    fr = svc.methods.get("from_reply")
    if fr is None:
        ctx.undecided(ckey(svc.key + ".from_reply"), svc.node, "anchor vanished")
        return
    by_name, rev = ctx.folder.enum_tables(svc)
    codes = {}
    for name, v in by_name.items():
        if isinstance(v, bytes) and len(v) == 1:
            codes.setdefault(v, set()).add(name)
    inputs = {bytes([c[0] | 0x80]): c for c in codes if c[0] < 0x80}
    unknown = next(bytes([x | 0x80]) for x in range(1, 0x80) if bytes([x]) not in codes)
    res, _, _ = enum_method_results(ctx, svc, fr, sorted(inputs) + [unknown])
    for reply, code in sorted(inputs.items()):
        r = res[reply]
        key = ckey(svc.key + ".from_reply", f"reply:{reply.hex()}")
        if r is UNKNOWN:
            ctx.undecided(key, fr, "from_reply not foldable for this reply code")
            continue
        ok = (isinstance(r, str) and r.lower() in codes[code]) or r == code
        ctx.check(ok, key, fr, f"from_reply({reply.hex()}) -> {r!r}", f"Services.from_reply({reply.hex()}) yields {r!r}; the reply belongs to {sorted(codes[code])} (code {code.hex()}): "
                  f"replies of that service are then classified as belonging to no service", reply=reply.hex())
    r = res[unknown]
    ctx.check(r is None, ckey(svc.key + ".from_reply", "unknown-reply"), fr, "a reply code of no service resolves to None", f"from_reply of a reply code outside the table yields {r!r}", reply=unknown.hex())


# the (status, extended status) lookups of this property are the witness obligations of D13.8 (packets/util.get_extended_status
# and the two per-class formatters): every sampled row of the extended-status table must be named by its text
from .C13 import d13_8 as _d13_8  # noqa: E402

rule(P, "D19.8", "T-WITNESS", floor=6)(_d13_8)
