"""Constant folding over the program model.

Evaluates *constant* expressions of the repository (literals, arithmetic,
module constants through imports, class constants through the MRO, EnumMap
members, dict/set/list displays, ``**`` merges, comprehensions over constant
iterables, ``T.encode(const)`` of fixed-format elementary codecs, ``bytes(n)``
...).  Anything else folds to UNKNOWN.  No repository code is executed: the
folder interprets the syntax tree itself.
"""
from __future__ import annotations

import ast
import struct
from typing import Any, Dict, Optional

from .model import ClassInfo, Model, Module


class _Unknown:
    def __repr__(self):
        return "UNKNOWN"

    def __bool__(self):
        return False


UNKNOWN = _Unknown()


class ClassRef:
    def __init__(self, ci: ClassInfo):
        self.ci = ci

    def __repr__(self):
        return f"ClassRef({self.ci.qualname})"

    def __eq__(self, other):
        return isinstance(other, ClassRef) and other.ci is self.ci

    def __hash__(self):
        return hash(("ClassRef", id(self.ci)))


class FuncRef:
    def __init__(self, module: Module, node):
        self.module = module
        self.node = node

    def __repr__(self):
        return f"FuncRef({self.node.name})"

    def __hash__(self):
        return hash(("FuncRef", id(self.node)))

    def __eq__(self, other):
        return isinstance(other, FuncRef) and other.node is self.node


class Instance:
    """An instance construction ``C(args)`` kept symbolically (e.g. LogicalSegment(2, "class_id"))."""

    def __init__(self, ci: ClassInfo, args, kwargs):
        self.ci = ci
        self.args = args
        self.kwargs = kwargs

    def __repr__(self):
        return f"Instance({self.ci.qualname}, {self.args}, {self.kwargs})"


def is_known(v) -> bool:
    if v is UNKNOWN:
        return False
    if isinstance(v, (list, tuple, set, frozenset)):
        return all(is_known(x) for x in v)
    if isinstance(v, dict):
        return all(is_known(k) and is_known(x) for k, x in v.items())
    return True


_BIN = {
    ast.Add: lambda a, b: a + b,
    ast.Sub: lambda a, b: a - b,
    ast.Mult: lambda a, b: a * b,
    ast.FloorDiv: lambda a, b: a // b,
    ast.Div: lambda a, b: a / b,
    ast.Mod: lambda a, b: a % b,
    ast.LShift: lambda a, b: a << b,
    ast.RShift: lambda a, b: a >> b,
    ast.BitOr: lambda a, b: a | b,
    ast.BitAnd: lambda a, b: a & b,
    ast.BitXor: lambda a, b: a ^ b,
    ast.Pow: lambda a, b: a ** b,
}
_CMP = {
    ast.Eq: lambda a, b: a == b,
    ast.NotEq: lambda a, b: a != b,
    ast.Lt: lambda a, b: a < b,
    ast.LtE: lambda a, b: a <= b,
    ast.Gt: lambda a, b: a > b,
    ast.GtE: lambda a, b: a >= b,
    ast.In: lambda a, b: a in b,
    ast.NotIn: lambda a, b: a not in b,
    ast.Is: lambda a, b: a is b,
    ast.IsNot: lambda a, b: a is not b,
}


class _Rev(dict):
    """Reverse table of an EnumMap; `unknown` when the table's reverse key could not be followed."""

    unknown = False


class Folder:
    def __init__(self, model: Model):
        self._depth = 0
        self.model = model
        self._cache: Dict[Any, Any] = {}
        self._active = set()

    # ---------------------------------------------------------------- names
    def module_value(self, modname: str, name: str):
        key = ("mod", modname, name)
        if key in self._cache:
            return self._cache[key]
        if key in self._active:
            return UNKNOWN
        self._active.add(key)
        try:
            s = self.model.resolve(modname, name)
            v = UNKNOWN
            if s is not None:
                if s.kind == "class":
                    ci = self.model.class_by_node.get(s.node)
                    v = ClassRef(ci) if ci else UNKNOWN
                elif s.kind == "func":
                    v = FuncRef(self.model.modules[s.module], s.node)
                elif s.kind == "assign":
                    if len(s.values) == 1:
                        v = self.eval(s.node, self.model.modules[s.module])
                    else:
                        v = UNKNOWN
            self._cache[key] = v
            return v
        finally:
            self._active.discard(key)

    def class_attr(self, ci: ClassInfo, attr: str):
        key = ("cls", ci.key, attr)
        if key in self._cache:
            return self._cache[key]
        if key in self._active:
            return UNKNOWN
        self._active.add(key)
        try:
            v = UNKNOWN
            for c in ci.mro():
                if attr in c.attrs:
                    v = self.eval(c.attrs[attr], c.module, cls=c)
                    break
                if attr in c.methods:
                    v = FuncRef(c.module, c.methods[attr])
                    break
            self._cache[key] = v
            return v
        finally:
            self._active.discard(key)

    def enum_members(self, ci: ClassInfo) -> Dict[str, Any]:
        """Members of an EnumMap subclass as MapMeta.__new__ would select them:
        class-body names not starting with '_' and not class/static methods."""
        out = {}
        for st in ci.node.body:
            if isinstance(st, ast.Assign):
                for t in st.targets:
                    if isinstance(t, ast.Name) and not t.id.startswith("_"):
                        out[t.id] = self.eval(st.value, ci.module, cls=ci)
            elif isinstance(st, ast.AnnAssign) and isinstance(st.target, ast.Name) and st.value is not None:
                if not st.target.id.startswith("_"):
                    out[st.target.id] = self.eval(st.value, ci.module, cls=ci)
            elif isinstance(st, ast.FunctionDef):
                decos = {getattr(d, "id", None) for d in st.decorator_list}
                if not st.name.startswith("_") and not (decos & {"classmethod", "staticmethod"}):
                    out[st.name] = FuncRef(ci.module, st)
        return out

    def enum_tables(self, ci: ClassInfo):
        """(name -> member, value key -> name) of an EnumMap table the way MapMeta builds it (names case-folded; the reverse
        key is the member itself unless the table defines _value_key_ = lambda m: m.<attr>)."""
        key = ("enumtab", ci.key)
        if key in self._cache:
            return self._cache[key]
        members = {k: v for k, v in self.enum_members(ci).items() if not isinstance(v, FuncRef)}
        by_name = {k.lower(): v for k, v in members.items()}
        vk = self.class_attr(ci, "_value_key_")
        vk_attr = None
        vk_node = next((k_.attrs["_value_key_"] for k_ in ci.mro() if "_value_key_" in getattr(k_, "attrs", {})), None)
        if isinstance(vk, FuncRef):
            node = vk.node
            body = node.body if isinstance(node, ast.Lambda) else next((r.value for r in ast.walk(node) if isinstance(r, ast.Return)), None)
            params = node.args.args
            if body is not None and params and isinstance(body, ast.Attribute) and isinstance(body.value, ast.Name) and body.value.id == params[0].arg:
                vk_attr = body.attr
        elif vk_node is not None:
            # `_value_key_ = attrgetter("code")`, directly or through a module-level name assigned once
            call, mod_ = vk_node, ci.module
            if isinstance(call, ast.Name):
                sym = self.model.resolve(mod_.name, call.id)
                if sym is not None and sym.kind == "assign" and len(sym.values) == 1 and sym.module in self.model.modules:
                    call, mod_ = sym.values[0], self.model.modules[sym.module]
            if isinstance(call, ast.Call) and len(call.args) == 1 and not call.keywords and isinstance(call.args[0], ast.Constant) and isinstance(call.args[0].value, str) and call.args[0].value.isidentifier():
                fname = call.func.id if isinstance(call.func, ast.Name) else call.func.attr if isinstance(call.func, ast.Attribute) else None
                fsym = self.model.resolve(mod_.name, call.func.id) if isinstance(call.func, ast.Name) else self.model.resolve(mod_.name, call.func.value.id) if isinstance(call.func, ast.Attribute) and isinstance(call.func.value, ast.Name) else None
                if fname == "attrgetter" and fsym is not None and getattr(fsym, "target", None) == "operator":
                    vk_attr = call.args[0].value
        rev = _Rev()
        if vk_node is not None and vk_attr is None:
            rev.unknown = True  # the table defines a reverse key this reading cannot follow: reverse lookups decide nothing
        for name, v in members.items():
            k = v
            if vk_attr is not None and isinstance(v, ClassRef):
                k = self.class_attr(v.ci, vk_attr)
            elif vk_node is not None and isinstance(v, ClassRef):
                k = UNKNOWN
            if k is not UNKNOWN and not isinstance(k, (ClassRef, FuncRef, Instance)):
                try:
                    rev[k] = name.lower()  # later members win, names are stored lower-cased (MapMeta.__new__)
                except TypeError:
                    pass
        self._cache[key] = (by_name, rev)
        return by_name, rev

    def enum_lookup(self, ci: ClassInfo, k, default=None):
        """MapMeta.get / __getitem__ as written in pycomm3/map.py (D19.1 / D19.2 check that implementation against this
        reading): str keys are lower-cased, the merged table is names + lower-cased names + reverse keys (reverse keys win),
        and str results are upper-cased when the table's own body sets _return_caps_only_."""
        by_name, rev = self.enum_tables(ci)
        if getattr(rev, "unknown", False):
            return UNKNOWN
        kk = k.lower() if isinstance(k, str) else k
        try:
            val = rev[kk] if kk in rev else by_name.get(kk, default) if isinstance(kk, str) else default
        except TypeError:
            val = default
        caps = ci.attrs.get("_return_caps_only_")
        if caps is not None and self.eval(caps, ci.module, cls=ci) and isinstance(val, str):
            val = val.upper()
        return val

    # ----------------------------------------------------------------- eval
    def eval(self, node, module: Module, cls: Optional[ClassInfo] = None, env: Optional[dict] = None, func=None):
        try:
            return self._eval(node, module, cls, env or {}, func)
        except (ArithmeticError, TypeError, ValueError, KeyError, IndexError, AttributeError, struct.error, OverflowError, RecursionError):
            return UNKNOWN

    def _eval(self, node, module, cls, env, func):
        ev = lambda n: self._eval(n, module, cls, env, func)  # noqa: E731
        if isinstance(node, ast.Constant):
            return node.value
        if isinstance(node, ast.Name):
            if node.id in env:
                return env[node.id]
            if node.id in ("True", "False", "None"):
                return {"True": True, "False": False, "None": None}[node.id]
            if cls is not None and func is None and node.id in cls.attrs:
                # names in a class body refer to earlier class-level bindings
                return self.class_attr(cls, node.id)
            if cls is not None and func is None and cls.enclosing is not None:
                # class attribute of a factory-made class bound to a factory parameter: use the parameter's default
                a = cls.enclosing.args
                pos = list(getattr(a, "posonlyargs", [])) + list(a.args)
                defaults = [None] * (len(pos) - len(a.defaults)) + list(a.defaults)
                for p_, d_ in list(zip(pos, defaults)) + list(zip(a.kwonlyargs, a.kw_defaults)):
                    if p_.arg == node.id:
                        return self._eval(d_, module, None, {}, None) if d_ is not None else UNKNOWN
            if func is not None:
                v = self._local_single_assign(func, node.id, module, cls)
                if v is not UNKNOWN:
                    return v
            return self.module_value(module.name, node.id)
        if isinstance(node, ast.Attribute):
            base = ev(node.value)
            if isinstance(base, ClassRef):
                return self.class_attr(base.ci, node.attr)
            if isinstance(node.value, ast.Name) and base is UNKNOWN:
                s = self.model.resolve(module.name, node.value.id)
                if s is not None and s.kind == "module" and s.target in self.model.modules:
                    return self.module_value(s.target, node.attr)
                if s is not None and s.kind == "module" and s.target == "re":
                    import re as _re

                    c = getattr(_re, node.attr, None)
                    if isinstance(c, (int, _re.RegexFlag)) and not isinstance(c, bool):
                        return c
            if isinstance(base, Instance):
                return UNKNOWN
            return UNKNOWN
        if isinstance(node, ast.BinOp):
            a, b = ev(node.left), ev(node.right)
            if a is UNKNOWN or b is UNKNOWN:
                return UNKNOWN
            if isinstance(a, (ClassRef, Instance, FuncRef)) or isinstance(b, (ClassRef, Instance, FuncRef)):
                return UNKNOWN
            return _BIN[type(node.op)](a, b)
        if isinstance(node, ast.UnaryOp):
            a = ev(node.operand)
            if a is UNKNOWN:
                return UNKNOWN
            if isinstance(node.op, ast.USub):
                return -a
            if isinstance(node.op, ast.Invert):
                return ~a
            if isinstance(node.op, ast.Not):
                return not a
            if isinstance(node.op, ast.UAdd):
                return +a
        if isinstance(node, ast.BoolOp):
            vals = [ev(v) for v in node.values]
            if any(v is UNKNOWN for v in vals):
                return UNKNOWN
            if isinstance(node.op, ast.And):
                r = True
                for v in vals:
                    r = v
                    if not v:
                        break
                return r
            r = False
            for v in vals:
                r = v
                if v:
                    break
            return r
        if isinstance(node, ast.Compare):
            left = ev(node.left)
            if left is UNKNOWN:
                return UNKNOWN
            for op, comp in zip(node.ops, node.comparators):
                right = ev(comp)
                if right is UNKNOWN:
                    return UNKNOWN
                if not _CMP[type(op)](left, right):
                    return False
                left = right
            return True
        if isinstance(node, ast.IfExp):
            t = ev(node.test)
            if t is UNKNOWN:
                return UNKNOWN
            return ev(node.body) if t else ev(node.orelse)
        if isinstance(node, (ast.Tuple, ast.List, ast.Set)):
            out = []
            for e in node.elts:
                if isinstance(e, ast.Starred):
                    v = ev(e.value)
                    if v is UNKNOWN or not isinstance(v, (list, tuple, set, frozenset)):
                        return UNKNOWN
                    out.extend(v)
                else:
                    out.append(ev(e))
            if isinstance(node, ast.Tuple):
                return tuple(out)
            if isinstance(node, ast.Set):
                if not all(is_known(x) for x in out):
                    return UNKNOWN
                return frozenset(out)
            return out
        if isinstance(node, ast.Dict):
            d = {}
            for k, v in zip(node.keys, node.values):
                if k is None:
                    sub = ev(v)
                    if not isinstance(sub, dict):
                        return UNKNOWN
                    d.update(sub)
                else:
                    kk = ev(k)
                    if kk is UNKNOWN:
                        return UNKNOWN
                    d[kk] = ev(v)
            return d
        if isinstance(node, ast.Subscript):
            base = ev(node.value)
            if isinstance(base, ClassRef) and base.ci.has_base_named("EnumMap") and not isinstance(node.slice, ast.Slice):
                k = ev(node.slice)
                if k is UNKNOWN:
                    return UNKNOWN
                r = self.enum_lookup(base.ci, k, UNKNOWN)
                if r is UNKNOWN:
                    raise KeyError(k)
                return r
            if base is UNKNOWN or isinstance(base, (ClassRef, Instance)):
                return UNKNOWN
            sl = node.slice
            if isinstance(sl, ast.Slice):
                lo = ev(sl.lower) if sl.lower is not None else None
                hi = ev(sl.upper) if sl.upper is not None else None
                st = ev(sl.step) if sl.step is not None else None
                if UNKNOWN in (lo, hi, st):
                    return UNKNOWN
                return base[lo:hi:st]
            idx = ev(sl)
            if idx is UNKNOWN:
                return UNKNOWN
            return base[idx]
        if isinstance(node, (ast.DictComp, ast.ListComp, ast.SetComp, ast.GeneratorExp)):
            return self._comp(node, module, cls, env, func)
        if isinstance(node, ast.JoinedStr):
            parts = []
            for v in node.values:
                if isinstance(v, ast.Constant):
                    parts.append(str(v.value))
                elif isinstance(v, ast.FormattedValue):
                    val = ev(v.value)
                    if val is UNKNOWN or isinstance(val, (ClassRef, FuncRef, Instance)):
                        return UNKNOWN
                    spec = ""
                    if v.format_spec is not None:
                        spec = ev(v.format_spec)
                        if not isinstance(spec, str):
                            return UNKNOWN
                    if v.conversion == ord("r"):
                        val = repr(val)
                    elif v.conversion == ord("s"):
                        val = str(val)
                    elif v.conversion == ord("a"):
                        val = ascii(val)
                    parts.append(format(val, spec))
                else:
                    return UNKNOWN
            return "".join(parts)
        if isinstance(node, ast.Call):
            return self._call(node, module, cls, env, func)
        if isinstance(node, ast.Lambda):
            return FuncRef(module, node)
        return UNKNOWN

    def _local_single_assign(self, func, name, module, cls):
        vals = []
        for st in ast.walk(func):
            if isinstance(st, ast.Assign):
                for t in st.targets:
                    if isinstance(t, ast.Name) and t.id == name:
                        vals.append(st.value)
            elif isinstance(st, (ast.AugAssign, ast.AnnAssign)) and isinstance(st.target, ast.Name) and st.target.id == name:
                vals.append(None)
            elif isinstance(st, (ast.For, ast.comprehension)):
                for n in ast.walk(st.target):
                    if isinstance(n, ast.Name) and n.id == name:
                        vals.append(None)
        args = getattr(func, "args", None)
        if args is not None:
            for a in list(args.args) + list(args.kwonlyargs) + list(getattr(args, "posonlyargs", [])):
                if a.arg == name:
                    return UNKNOWN
        if len(vals) == 1 and vals[0] is not None:
            return self._eval(vals[0], module, cls, {}, None)
        return UNKNOWN

    def _comp(self, node, module, cls, env, func):
        results = []

        def rec(gens, env):
            if not gens:
                if isinstance(node, ast.DictComp):
                    results.append((self._eval(node.key, module, cls, env, func), self._eval(node.value, module, cls, env, func)))
                else:
                    results.append(self._eval(node.elt, module, cls, env, func))
                return True
            g = gens[0]
            it = self._eval(g.iter, module, cls, env, func)
            if it is UNKNOWN or isinstance(it, (ClassRef, Instance, FuncRef)):
                return False
            if isinstance(it, dict):
                it = list(it.keys())
            try:
                items = list(it)
            except TypeError:
                return False
            if len(items) > 100000:
                return False
            for item in items:
                e2 = dict(env)
                if not self._bind(g.target, item, e2):
                    return False
                ok = True
                for cond in g.ifs:
                    c = self._eval(cond, module, cls, e2, func)
                    if c is UNKNOWN:
                        return False
                    if not c:
                        ok = False
                        break
                if ok and not rec(gens[1:], e2):
                    return False
            return True

        if not rec(node.generators, env):
            return UNKNOWN
        if isinstance(node, ast.DictComp):
            if any(k is UNKNOWN for k, _ in results):
                return UNKNOWN
            return dict(results)
        if isinstance(node, ast.SetComp):
            if not all(is_known(x) for x in results):
                return UNKNOWN
            return frozenset(results)
        return results

    def _bind(self, target, value, env) -> bool:
        if isinstance(target, ast.Name):
            env[target.id] = value
            return True
        if isinstance(target, (ast.Tuple, ast.List)):
            try:
                vals = list(value)
            except TypeError:
                return False
            if len(vals) != len(target.elts):
                return False
            return all(self._bind(t, v, env) for t, v in zip(target.elts, vals))
        return False

    def elementary_format(self, ci: ClassInfo):
        fmt = self.class_attr(ci, "_format")
        return fmt if isinstance(fmt, str) and fmt else None

    def _call(self, node, module, cls, env, func):
        ev = lambda n: self._eval(n, module, cls, env, func)  # noqa: E731
        f = node.func
        args = [ev(a) for a in node.args if not isinstance(a, ast.Starred)]
        has_star = any(isinstance(a, ast.Starred) for a in node.args)
        kwargs = {k.arg: ev(k.value) for k in node.keywords if k.arg}
        if isinstance(f, ast.Name) and f.id not in env:
            name = f.id
            shadow = self.model.resolve(module.name, name)
            if shadow is not None and shadow.kind == "external" and getattr(shadow, "target", None) == "struct" and getattr(shadow, "name", name) == name \
                    and name in ("calcsize", "pack", "unpack", "unpack_from") and not has_star and not kwargs and args and isinstance(args[0], (str, bytes)) and is_known(args):
                # `from struct import calcsize / pack / unpack` applied to constants
                try:
                    r_ = getattr(struct, name)(*args)
                except (struct.error, TypeError):
                    return UNKNOWN
                return r_
            if shadow is None and not has_star:
                if name == "bytes":
                    if len(args) == 1 and isinstance(args[0], int) and not isinstance(args[0], bool):
                        return bytes(args[0]) if 0 <= args[0] < 1 << 20 else UNKNOWN
                    if len(args) == 1 and isinstance(args[0], (list, tuple)) and is_known(args[0]):
                        return bytes(args[0])
                    if len(args) == 2 and isinstance(args[0], str) and isinstance(args[1], str):
                        return bytes(args[0], args[1])
                    if not args:
                        return b""
                    return UNKNOWN
                if name == "len" and len(args) == 1 and args[0] is not UNKNOWN and not isinstance(args[0], (ClassRef, Instance, FuncRef)):
                    return len(args[0])
                if name == "int" and args and is_known(args):
                    return int(*args)
                if name == "float" and len(args) == 1 and isinstance(args[0], (int, float, str)) and not isinstance(args[0], bool):
                    return float(args[0])
                if name == "round" and args and is_known(args) and all(isinstance(a, (int, float)) for a in args):
                    return round(*args)
                if name == "abs" and len(args) == 1 and isinstance(args[0], (int, float)):
                    return abs(args[0])
                if name == "str" and len(args) == 1 and is_known(args[0]) and not isinstance(args[0], (ClassRef, Instance, FuncRef)):
                    return str(args[0])
                if name == "bool" and len(args) == 1 and args[0] is not UNKNOWN:
                    return bool(args[0])
                if name == "range" and args and is_known(args):
                    r = range(*args)
                    return list(r) if len(r) <= 100000 else UNKNOWN
                if name in ("dict",) and not args:
                    return dict(kwargs)
                if name == "dict" and len(args) == 1:
                    src = args[0]
                    if isinstance(src, dict):
                        return {**src, **kwargs}
                    if isinstance(src, (list, tuple)) and all(isinstance(p, (list, tuple)) and len(p) == 2 and is_known(p[0]) for p in src):
                        return {**{p[0]: p[1] for p in src}, **kwargs}
                    return UNKNOWN
                if name == "enumerate" and 1 <= len(args) <= 2 and isinstance(args[0], (list, tuple, str, bytes, dict)) and not (set(kwargs) - {"start"}):
                    start = args[1] if len(args) == 2 else kwargs.get("start", 0)
                    if isinstance(start, int) and not isinstance(start, bool):
                        return [(i, x) for i, x in enumerate(args[0], start)]
                    return UNKNOWN
                if name == "zip" and args and not kwargs and all(isinstance(a, (list, tuple, str, bytes, dict)) for a in args):
                    return [tuple(t) for t in zip(*args)]
                if name == "reversed" and len(args) == 1 and not kwargs and isinstance(args[0], (list, tuple, str, bytes)):
                    return list(reversed(args[0]))
                if name == "sorted" and len(args) == 1 and not (set(kwargs) - {"reverse"}) and isinstance(args[0], (list, tuple, dict, frozenset)) and is_known(list(args[0])) and is_known(list(kwargs.values())):
                    try:
                        return sorted(args[0], **kwargs)
                    except TypeError:
                        return UNKNOWN
                if name in ("set", "frozenset") and len(args) <= 1:
                    if not args:
                        return frozenset()
                    if is_known(args[0]):
                        return frozenset(args[0])
                    return UNKNOWN
                if name in ("list", "tuple") and len(args) == 1 and args[0] is not UNKNOWN and not isinstance(args[0], (ClassRef, Instance, FuncRef)):
                    return list(args[0]) if name == "list" else tuple(args[0])
                if name in ("min", "max") and args and is_known(args):
                    return (min if name == "min" else max)(*args)
                if name == "sum" and len(args) == 1 and is_known(args[0]):
                    return sum(args[0])
                if name == "slice" and 1 <= len(args) <= 3 and all(a is None or (isinstance(a, int) and not isinstance(a, bool)) for a in args):
                    return slice(*args)
                return UNKNOWN
            callee = ev(f)
            if isinstance(callee, ClassRef) and not has_star:
                return Instance(callee.ci, args, kwargs)
            if isinstance(callee, FuncRef) and isinstance(callee.node, ast.FunctionDef) and not has_star and not kwargs and is_known(args) and self._depth < 3:
                # a small pure module-level helper applied to constants (e.g. a table built by a function): witness
                # evaluation by the mini interpreter; anything it cannot follow stays UNKNOWN
                from .miniinterp import run_function

                params = [a.arg for a in callee.node.args.args]
                if len(args) == len(params) and not callee.node.decorator_list:
                    self._depth += 1
                    try:
                        shim = type("Shim", (), {"folder": self, "model": self.model})()
                        kind, res = run_function(shim, callee.module, callee.node, dict(zip(params, args)))
                    finally:
                        self._depth -= 1
                    return res if kind == "return" else UNKNOWN
            return UNKNOWN
        if isinstance(f, ast.Attribute) and isinstance(f.value, ast.Name) and f.attr == "Struct" and f.value.id not in env and len(args) == 1 and not kwargs and not has_star and isinstance(args[0], (str, bytes)):
            s_ = self.model.resolve(module.name, f.value.id)
            if s_ is not None and s_.kind == "module" and s_.target == "struct":
                try:
                    return struct.Struct(args[0])  # a compiled constant format: used like the format text itself
                except struct.error:
                    return UNKNOWN
        if isinstance(f, ast.Attribute) and isinstance(f.value, ast.Name) and f.attr in ("compile", "fullmatch", "match", "search") and f.value.id not in env:
            s_ = self.model.resolve(module.name, f.value.id)
            if s_ is not None and s_.kind == "module" and s_.target == "re" and not has_star and args and is_known(args) and is_known(list(kwargs.values())) and isinstance(args[0], (str, bytes)):
                import re as _re

                # a constant pattern applied by Python's own regex engine: the same constant folding as str.split on a literal
                return getattr(_re, f.attr)(*args, **kwargs)
        if isinstance(f, ast.Attribute):
            recv = ev(f.value)
            meth = f.attr
            import re as _re

            if isinstance(recv, struct.Struct) and meth in ("pack", "unpack", "unpack_from") and not has_star and not kwargs and is_known(args):
                try:
                    return getattr(recv, meth)(*args)
                except (struct.error, TypeError):
                    return UNKNOWN
            if isinstance(recv, _re.Pattern) and meth in ("fullmatch", "match", "search", "findall", "split", "sub") and not has_star and is_known(args):
                return getattr(recv, meth)(*args, **kwargs)
            if isinstance(recv, _re.Match) and meth in ("group", "groups", "groupdict", "start", "end", "span") and not has_star and is_known(args):
                r_ = getattr(recv, meth)(*args, **kwargs)
                return r_
            if isinstance(recv, ClassRef) and not has_star:
                if meth == "get" and 1 <= len(args) <= 2 and not kwargs and recv.ci.has_base_named("EnumMap") and "get" not in recv.ci.methods and is_known(args):
                    return self.enum_lookup(recv.ci, args[0], args[1] if len(args) == 2 else None)
                if meth == "decode" and len(args) == 1 and not kwargs and isinstance(args[0], (bytes, bytearray)):
                    dc, _ = recv.ci.lookup("decode")
                    ec, _ = recv.ci.lookup("_decode")
                    fmt = self.elementary_format(recv.ci)
                    if fmt and dc is not None and dc.name == "DataType" and ec is not None and ec.name == "ElementaryDataType" and len(args[0]) == struct.calcsize(fmt):
                        return struct.unpack(fmt, bytes(args[0]))[0]
                    return UNKNOWN
                if meth == "encode" and len(args) == 1 and not kwargs:
                    # own encode override -> not a plain pack
                    dc, _ = recv.ci.lookup("encode")
                    ec, _ = recv.ci.lookup("_encode")
                    fmt = self.elementary_format(recv.ci)
                    if fmt and dc is not None and dc.name == "DataType" and ec is not None and ec.name == "ElementaryDataType":
                        if isinstance(args[0], (int, float)) and not isinstance(args[0], bool):
                            return struct.pack(fmt, args[0])
                    return UNKNOWN
                return UNKNOWN
            if recv is UNKNOWN or isinstance(recv, (Instance, FuncRef, ClassRef)):
                return UNKNOWN
            if has_star or not is_known(args):
                if meth == "join" and isinstance(recv, (bytes, str)) and len(args) == 1 and isinstance(args[0], (list, tuple)) and is_known(args[0]):
                    return recv.join(args[0])
                return UNKNOWN
            if isinstance(recv, dict) and meth in ("items", "keys", "values", "get", "copy"):
                r = getattr(recv, meth)(*args)
                return list(r) if meth in ("items", "keys", "values") else r
            if isinstance(recv, (str, bytes)) and meth in (
                "lower", "upper", "join", "encode", "decode", "replace", "startswith", "endswith", "strip", "split", "hex", "isdigit", "format", "title",
                "rsplit", "partition", "rpartition", "lstrip", "rstrip", "isnumeric", "isdecimal", "find", "rfind", "count", "removeprefix", "removesuffix", "zfill", "isalpha", "isupper", "islower",
            ):
                return getattr(recv, meth)(*args, **kwargs)
            if isinstance(recv, (list, tuple)) and meth in ("index", "count"):
                return getattr(recv, meth)(*args)
            if isinstance(recv, int) and meth in ("to_bytes", "bit_length"):
                return getattr(recv, meth)(*args, **kwargs)
        return UNKNOWN
